(* C07/Rows.v — two particles in different stripes of equal parity touch disjoint rows (mod n), for every grid size n,
   even stripe count np with 3*np <= n, common denominator D, offset O/D in [0,1) cells, including the wrap-around
   pair (first / last stripe) and the position value box. *)
From Coq Require Import ZArith List Bool Lia ZifyBool.
From Abacus.C07 Require Import Model.
Import ListNotations.
Local Open Scope Z_scope.
Ltac Zify.zify_post_hook ::= Z.to_euclidean_division_equations.

(* r is P/D rounded to nearest, ties to even *)
Definition is_round (D P r : Z) : Prop :=
  - D <= 2 * (r * D - P) <= D /\
  ((2 * (r * D - P) = D \/ 2 * (r * D - P) = - D) -> exists h, r = 2 * h).

Lemma rhe_is_round D P : 0 < D -> is_round D P (rhe D P).
Proof.
  intros HD. unfold is_round, rhe.
  pose proof (Z.div_mod P D ltac:(lia)) as Hdm. pose proof (Z.mod_pos_bound P D HD) as Hm.
  set (f := P / D) in *. set (m := P mod D) in *.
  assert (HP : P - f * D = m) by lia. rewrite HP.
  destruct (2 * m <? D) eqn:E1.
  - split; [lia|]. intros [H|H]; lia.
  - destruct (D <? 2 * m) eqn:E2.
    + split; [lia|]. intros [H|H]; lia.
    + assert (H2m : 2 * m = D) by lia.
      destruct (Z.even f) eqn:Ev.
      * split; [lia|]. intros _. apply Z.even_spec in Ev. destruct Ev as [h Hh]. exists h. exact Hh.
      * split; [lia|]. intros _.
        assert (Hodd : Z.odd f = true) by (rewrite <- Z.negb_even, Ev; reflexivity).
        apply Z.odd_spec in Hodd. destruct Hodd as [h Hh]. exists (h + 1). lia.
Qed.

Lemma key_bounds n np D X :
  0 < D -> 0 < n -> 0 < np -> 0 <= X <= n * D ->
  let k := key n np D X in
  0 <= k <= np - 1 /\ k * (D * n) <= X * np /\ (k < np - 1 -> X * np < (k + 1) * (D * n)).
Proof.
  intros HD Hn Hnp HX k. unfold key in k.
  assert (HDn : 0 < D * n) by lia.
  pose proof (Z.div_mod (X * np) (D * n) ltac:(lia)) as Hdm.
  pose proof (Z.mod_pos_bound (X * np) (D * n) HDn) as Hm.
  set (q := X * np / (D * n)) in *.
  assert (Hq0 : 0 <= q) by (apply Z.div_pos; [apply Z.mul_nonneg_nonneg; lia|exact HDn]).
  assert (Hql : D * n * q <= X * np) by lia.
  assert (Hqu : X * np < D * n * q + D * n) by lia.
  destruct (Z.min_spec q (np - 1)) as [[Hlt Hk]|[Hge Hk]]; fold k in Hk; rewrite Hk.
  - split; [lia|]. split; [lia|]. intros _. lia.
  - split; [lia|]. split; [|lia].
    assert ((np - 1) * (D * n) <= q * (D * n)) by (apply Z.mul_le_mono_nonneg_r; lia). lia.
Qed.

Lemma wrap_index_cases n x :
  6 <= n -> -1 <= x <= n + 2 ->
  0 <= wrap_index n x < n /\ (wrap_index n x = x \/ wrap_index n x = x + n \/ wrap_index n x = x - n).
Proof.
  intros Hn Hx. unfold wrap_index. cbv zeta.
  destruct (n <=? x) eqn:E1; [destruct (x - n <? 0) eqn:E2|destruct (x <? 0) eqn:E2]; lia.
Qed.

(* the rounded index lies in [0, n+1] *)
Lemma round_range n D O X r :
  0 < D -> 0 <= O < D -> 0 <= X <= n * D -> is_round D (X + O) r -> 0 <= r <= n + 1.
Proof.
  intros HD HO HX [Hr _].
  assert (H1 : - D <= 2 * (r * D)) by lia.
  assert (H2 : 2 * (r * D) < (2 * n + 3) * D) by lia.
  split.
  - destruct (Z_lt_ge_dec r 0) as [Hneg|]; [|lia]. exfalso.
    assert (r * D <= (-1) * D) by (apply Z.mul_le_mono_nonneg_r; lia). lia.
  - destruct (Z_le_gt_dec r (n + 1)) as [|Hbig]; [lia|]. exfalso.
    assert ((n + 2) * D <= r * D) by (apply Z.mul_le_mono_nonneg_r; lia). lia.
Qed.

(* the arithmetic heart, with all products named so that the case analysis is linear *)
Lemma rows_disjoint_core n np D O X1 X2 r1 r2 d1 d2 :
  0 < D -> 0 <= O < D -> 2 <= np -> np mod 2 = 0 -> 3 * np <= n ->
  0 <= X1 <= n * D -> 0 <= X2 <= n * D ->
  is_round D (X1 + O) r1 -> is_round D (X2 + O) r2 ->
  key n np D X1 < key n np D X2 -> (key n np D X2 - key n np D X1) mod 2 = 0 ->
  -1 <= d1 <= 1 -> -1 <= d2 <= 1 ->
  wrap_index n (r1 + d1) <> wrap_index n (r2 + d2).
Proof.
  intros HD HO Hnp2 Hev H3 HX1 HX2 R1 R2 Hlt Hpar Hd1 Hd2 Heq.
  assert (Hn : 6 <= n) by lia.
  pose proof (round_range n D O X1 r1 HD HO HX1 R1) as Hr1.
  pose proof (round_range n D O X2 r2 HD HO HX2 R2) as Hr2.
  destruct (key_bounds n np D X1 HD ltac:(lia) ltac:(lia) HX1) as [K1a [K1b K1c]].
  destruct (key_bounds n np D X2 HD ltac:(lia) ltac:(lia) HX2) as [K2a [K2b K2c]].
  set (k1 := key n np D X1) in *. set (k2 := key n np D X2) in *.
  assert (Hk : k1 + 2 <= k2) by lia.
  assert (K1c' : X1 * np < (k1 + 1) * (D * n)) by (apply K1c; lia).
  (* gap of more than 3 cells between the particles *)
  assert (Hmono : (k1 + 2) * (D * n) <= k2 * (D * n)) by (apply Z.mul_le_mono_nonneg_r; lia).
  assert (HDn3 : 3 * np * D <= D * n) by (replace (3 * np * D) with (D * (3 * np)) by ring; apply Z.mul_le_mono_nonneg_l; lia).
  assert (Hgapnp : np * (X2 - X1 - 3 * D) > 0) by lia.
  assert (Hgap : X2 - X1 > 3 * D).
  { destruct (Z_le_gt_dec (X2 - X1) (3 * D)) as [Hle|]; [|lia]. exfalso.
    assert (np * (X2 - X1 - 3 * D) <= np * 0) by (apply Z.mul_le_mono_nonneg_l; lia). lia. }
  (* either particle 1 is at least 3 cells from the left edge or particle 2 at least 3 cells from the right edge *)
  assert (Hside : 3 * D <= X1 \/ X2 < n * D - 3 * D).
  { destruct (Z.eq_dec k1 0) as [Hk0|Hk0].
    - right. assert (Hk2e : k2 mod 2 = 0) by (rewrite Hk0 in Hpar; replace (k2 - 0) with k2 in Hpar by lia; exact Hpar).
      assert (Hk2 : k2 <= np - 2) by lia.
      assert (K2c' : X2 * np < (k2 + 1) * (D * n)) by (apply K2c; lia).
      assert ((k2 + 1) * (D * n) <= (np - 1) * (D * n)) by (apply Z.mul_le_mono_nonneg_r; lia).
      assert (Hx : np * (n * D - 3 * D - X2) > 0) by lia.
      destruct (Z_lt_ge_dec X2 (n * D - 3 * D)) as [|Hge]; [lia|]. exfalso.
      assert (np * (n * D - 3 * D - X2) <= np * 0) by (apply Z.mul_le_mono_nonneg_l; lia). lia.
    - left. assert (1 * (D * n) <= k1 * (D * n)) by (apply Z.mul_le_mono_nonneg_r; lia).
      assert (Hx : np * (X1 - 3 * D) >= 0) by lia.
      destruct (Z_le_gt_dec (3 * D) X1) as [|Hgt]; [lia|]. exfalso.
      assert (np * (X1 - 3 * D) <= np * (-1)) by (apply Z.mul_le_mono_nonneg_l; lia). lia. }
  destruct R1 as [R1 T1]. destruct R2 as [R2 T2].
  (* name the products *)
  remember (r1 * D) as A1 eqn:EA1. remember (r2 * D) as A2 eqn:EA2. remember (n * D) as N eqn:EN.
  (* the wrapped indices are equal: the raw indices differ by a multiple j of n, j in {-1,0,1} *)
  destruct (wrap_index_cases n (r1 + d1) Hn ltac:(lia)) as [_ W1].
  destruct (wrap_index_cases n (r2 + d2) Hn ltac:(lia)) as [_ W2].
  assert (Hj : exists j, -1 <= j <= 1 /\ r2 + d2 = r1 + d1 + j * n).
  { destruct W1 as [W1|[W1|W1]], W2 as [W2|[W2|W2]]; rewrite W1, W2 in Heq;
      first [exists 0; lia | exists 1; lia | exists (-1); lia | exfalso; lia]. }
  destruct Hj as [j [Hj Hrel]].
  (* scale the relation by D *)
  assert (HrelD : A2 + d2 * D = A1 + d1 * D + j * N).
  { subst A1 A2 N. replace (r2 * D + d2 * D) with ((r2 + d2) * D) by ring. rewrite Hrel. ring. }
  assert (Hcases : (j = 0 \/ j = 1 \/ j = -1)) by lia.
  assert (Hd1c : d1 = -1 \/ d1 = 0 \/ d1 = 1) by lia.
  assert (Hd2c : d2 = -1 \/ d2 = 0 \/ d2 = 1) by lia.
  assert (HN6 : 6 * D <= N) by (subst N; replace (6 * D) with (6 * D) by ring; assert (6 * D <= n * D) by (apply Z.mul_le_mono_nonneg_r; lia); lia).
  destruct Hcases as [-> | [-> | ->]].
  - (* same unwrapped row: impossible, the roundings are more than 2 apart *)
    destruct Hd1c as [-> | [-> | ->]], Hd2c as [-> | [-> | ->]]; lia.
  - (* particle 2 wrapped past the right edge onto particle 1's rows *)
    destruct Hside as [Hs|Hs].
    + (* X1 >= 3D, X2 <= N: only the double tie could reach, and ties round to even *)
      assert (Hdiff : 2 * (A2 - A1) <= 2 * N - 4 * D) by lia.
      destruct Hd1c as [-> | [-> | ->]], Hd2c as [-> | [-> | ->]]; try lia.
      (* d1 = 1, d2 = -1 : A2 - A1 = N - 2D exactly, so both roundings are exact ties *)
      assert (Ht1 : 2 * (A1 - (X1 + O)) = - D) by lia.
      assert (HX1e : X1 = 3 * D) by lia.
      destruct (T1 (or_intror Ht1)) as [h Hh].
      (* 2*r1*D = 2*(3D + O) - D = 5D + 2O with 0 <= O < D: r1 = 3, odd *)
      assert (H5 : 2 * A1 = 5 * D + 2 * O) by lia.
      rewrite Hh in EA1.
      assert (Hlow : 5 * D <= 4 * (h * D)) by (rewrite EA1 in H5; lia).
      assert (Hup : 4 * (h * D) < 7 * D) by (rewrite EA1 in H5; lia).
      destruct (Z_le_gt_dec h 1) as [Hh1|Hh2].
      * assert (h * D <= 1 * D) by (apply Z.mul_le_mono_nonneg_r; lia). lia.
      * assert (2 * D <= h * D) by (apply Z.mul_le_mono_nonneg_r; lia). lia.
    + destruct Hd1c as [-> | [-> | ->]], Hd2c as [-> | [-> | ->]]; lia.
  - (* particle 1 would have to be to the right of particle 2 *)
    destruct Hd1c as [-> | [-> | ->]], Hd2c as [-> | [-> | ->]]; lia.
Qed.

(* symmetric form: any two particles in DIFFERENT stripes of EQUAL parity have disjoint row sets *)
Lemma concurrent_rows_disjoint_lemma n np D O X1 X2 :
  0 < D -> 0 <= O < D -> 2 <= np -> np mod 2 = 0 -> 3 * np <= n ->
  0 <= X1 <= n * D -> 0 <= X2 <= n * D ->
  key n np D X1 <> key n np D X2 -> (key n np D X1 - key n np D X2) mod 2 = 0 ->
  forall a b, In a (rows n D O X1) -> In b (rows n D O X2) -> a <> b.
Proof.
  intros HD HO Hnp Hev H3 HX1 HX2 Hne Hpar a b Ha Hb.
  pose proof (rhe_is_round D (X1 + O) HD) as R1. pose proof (rhe_is_round D (X2 + O) HD) as R2.
  unfold rows in Ha, Hb. cbn [In] in Ha, Hb.
  assert (Ha' : exists d1, -1 <= d1 <= 1 /\ a = wrap_index n (rhe D (X1 + O) + d1)).
  { destruct Ha as [<-|[<-|[<-|[]]]]; [exists (-1)|exists 0|exists 1]; (split; [lia|]); f_equal; lia. }
  assert (Hb' : exists d2, -1 <= d2 <= 1 /\ b = wrap_index n (rhe D (X2 + O) + d2)).
  { destruct Hb as [<-|[<-|[<-|[]]]]; [exists (-1)|exists 0|exists 1]; (split; [lia|]); f_equal; lia. }
  destruct Ha' as [d1 [Hd1 ->]]. destruct Hb' as [d2 [Hd2 ->]].
  destruct (Z_lt_ge_dec (key n np D X1) (key n np D X2)) as [Hlt|Hge].
  - apply (rows_disjoint_core n np D O X1 X2 _ _ d1 d2); try assumption.
    replace (key n np D X2 - key n np D X1) with (- (key n np D X1 - key n np D X2)) by ring.
    rewrite Z.mod_opp_l_z by (lia || exact Hpar). reflexivity.
  - intros Heq. symmetry in Heq. revert Heq.
    apply (rows_disjoint_core n np D O X2 X1 _ _ d2 d1); try assumption; lia.
Qed.

(* all indices the kernel forms are inside the grid after wrapping: rows are in [0, n) *)
Lemma rows_in_grid_lemma n D O X :
  6 <= n -> 0 < D -> 0 <= O < D -> 0 <= X <= n * D -> forall a, In a (rows n D O X) -> 0 <= a < n.
Proof.
  intros Hn HD HO HX a Ha.
  pose proof (round_range n D O X _ HD HO HX (rhe_is_round D (X + O) HD)) as Hr.
  unfold rows in Ha. cbn [In] in Ha.
  destruct Ha as [<-|[<-|[<-|[]]]]; apply wrap_index_cases; lia.
Qed.
