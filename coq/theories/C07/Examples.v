(* C07/Examples.v — non-vacuity of the hypotheses and regression values. *)
From Coq Require Import ZArith List Bool Lia.
From Abacus.Common Require Import Arr Par.
From Abacus.C07 Require Import Gen Model Decide Rows Sched.
Import ListNotations.
Local Open Scope Z_scope.

Example decide_default_8_2 : tsc_decide 8 2 0 = Ok 2.
Proof. vm_compute. reflexivity. Qed.
Example decide_default_256_16 : tsc_decide 256 16 0 = Ok 32.
Proof. vm_compute. reflexivity. Qed.
Example decide_default_10_16 : tsc_decide 10 16 0 = Ok 2.
Proof. vm_compute. reflexivity. Qed.
Example decide_half_rejected : tsc_decide 16 4 8 = Raise ValueError.
Proof. vm_compute. reflexivity. Qed.
Example decide_third_accepted : tsc_decide 12 2 4 = Ok 4.
Proof. vm_compute. reflexivity. Qed.
Example decide_odd_rejected : tsc_decide 30 2 3 = Raise ValueError.
Proof. vm_compute. reflexivity. Qed.
Example decide_odd_single_thread : tsc_decide 30 1 3 = Ok 3.
Proof. vm_compute. reflexivity. Qed.
Example safe_nonvacuous : safe 12 2 4 /\ 1 < 2 /\ 2 < 4.
Proof. unfold safe. split; [right; right; split; [reflexivity|lia]|lia]. Qed.

(* hypotheses of concurrent_rows_disjoint are satisfiable: grid 12, 4 stripes of width 3, half-cell lattice, offset 1/2 *)
Example rows_hyp_nonvacuous :
  0 < 2 /\ 0 <= 1 < 2 /\ 2 <= 4 /\ 4 mod 2 = 0 /\ 3 * 4 <= 12 /\ 0 <= 5 <= 12 * 2 /\ 0 <= 24 <= 12 * 2 /\
  key 12 4 2 5 = 0 /\ key 12 4 2 13 = 2 /\ key 12 4 2 6 = 1 /\ key 12 4 2 24 = 3 /\
  rows 12 2 1 5 = [2; 3; 4] /\ rows 12 2 1 13 = [6; 7; 8] /\
  (* the wrap-around pair at the exact tie: stripe 1's left edge and the value box in the last stripe *)
  rows 12 2 1 6 = [3; 4; 5] /\ rows 12 2 1 24 = [11; 0; 1].
Proof. vm_compute. repeat split; try discriminate; reflexivity. Qed.

Example schedule_even : schedule [0; 2; 5; 5; 9] = Ok ([(0, 2); (5, 5)], [(2, 5); (5, 9)]).
Proof. vm_compute. reflexivity. Qed.
Example schedule_odd : schedule [0; 2; 5; 9] = Ok ([(0, 2); (5, 9)], [(2, 5)]).
Proof. vm_compute. reflexivity. Qed.
Example schedule_one : schedule [0; 7] = Ok ([(0, 7)], []).
Proof. vm_compute. reflexivity. Qed.

(* a concrete phase that satisfies phase_ok: grid 12, 4 stripes, stripes 0 and 2 with one particle each *)
Definition q0 : particle Z := {| px := 5 ; deps := [(-1, 0, 1); (0, 0, 2); (1, 0, 1)] |}.
Definition q2 : particle Z := {| px := 13 ; deps := [(-1, 0, 1); (0, 0, 2); (1, 0, 1)] |}.
Example phase_ok_nonvacuous : phase_ok Z 12 4 2 1 [[q0]; [q2]].
Proof.
  split.
  - intros ps p [<-|[<-|[]]] [<-|[]]; (split; [|cbn; lia]); intros delta c w H; cbn in H;
      destruct H as [H|[H|[H|[]]]]; inversion H; subst; lia.
  - intros i j p q Hij Hp Hq.
    destruct i as [|[|i]], j as [|[|j]]; cbn in Hp, Hq; try contradiction; try (destruct i; contradiction);
      try (destruct j; contradiction);
      try (destruct Hp as [<-|[]]; destruct Hq as [<-|[]]; vm_compute; split; [discriminate|reflexivity]).
    all: try congruence.
Qed.

(* ---- outside the hypothesis 0 <= X <= n*D of concurrent_rows_disjoint: positions that were NOT wrapped into [0, box).
   partition_parallel computes int(x * npartition / box): truncation toward zero, and a negative key indexes the histogram
   from the end (NumPy/numba negative index), so an unwrapped x in [-box/2, 0) is filed one stripe away from where it lies.
   Grid 24, 8 stripes of width 3 (an accepted configuration: safe 24 4 8), positions 11 and -11 (= 13 modulo the box): they are
   filed in stripes 3 and 5 - equal parity, processed concurrently - and both update row 12.  This is why tsc_parallel
   wraps by default, and what a caller that passes wrap=False on unwrapped positions runs into (seeded change
   C07-interlaced-second-pass-unwrapped-copy; found on the implementation by the callers stage of harness/c07.py). *)

Example wrap_is_necessary :
  safe 24 4 8 /\ key_unwrapped 24 8 1 11 = 3 /\ key_unwrapped 24 8 1 (-11) = 5 /\
  (key_unwrapped 24 8 1 11 - key_unwrapped 24 8 1 (-11)) mod 2 = 0 /\
  In 12 (rows 24 1 0 11) /\ In 12 (rows 24 1 0 (-11)).
Proof. unfold safe. vm_compute. repeat split; auto; try (right; right; split; [reflexivity|discriminate]). Qed.

(* on wrapped positions the two key functions agree (non-negative products: quot = div) *)
Lemma key_unwrapped_is_key n np D X :
  0 < D -> 0 < n -> 1 <= np -> 0 <= X -> key_unwrapped n np D X = key n np D X.
Proof.
  intros HD Hn Hnp HX. unfold key_unwrapped, key.
  rewrite Z.quot_div_nonneg by nia.
  assert (0 <= (X * np) / (D * n)) by (apply Z.div_pos; nia).
  destruct (Z.min (X * np / (D * n)) (np - 1) <? 0) eqn:E; [apply Z.ltb_lt in E; lia|reflexivity].
Qed.
