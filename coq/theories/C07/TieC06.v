(* C07/TieC06.v — the hand-written geometry of C07/Model.v (rhe, wrap_index, rows) agrees with the 1-D index model that
   C06 regenerates from _tsc_scatter (round, _rightwrap, the +-1 neighbours; C06/Gen.v, Kernel1D.v) for every in-domain
   particle, along each of the three axes.  This carries the row-disjointness theorem over to the generated kernel text. *)
From Coq Require Import ZArith QArith Qround Lia Lqa List Bool.
From Abacus.Common Require Import Arr Num.
From Abacus.C06 Require Import Tab Arr3 Gen Kernel1D Spec KernelFacts Kernel1DFacts.
From Abacus.C07 Require Import Model Rows.
Import ListNotations.
Local Open Scope Z_scope.

Lemma Qfloor_frac P D : 0 < D -> Qfloor (P # Z.to_pos D) = P / D.
Proof. intros HD. unfold Qfloor. rewrite Z2Pos.id by lia. reflexivity. Qed.

Lemma frac_cmp P D f : 0 < D ->
  ((P # Z.to_pos D) - inject_Z f < 1 # 2)%Q <-> 2 * (P - f * D) < D.
Proof.
  intros HD. unfold Qlt, Qminus, Qplus, Qopp, inject_Z. cbn [Qnum Qden].
  rewrite Pos2Z.inj_mul. rewrite Z2Pos.id by lia. lia.
Qed.

Lemma frac_cmp' P D f : 0 < D ->
  (1 # 2 < (P # Z.to_pos D) - inject_Z f)%Q <-> D < 2 * (P - f * D).
Proof.
  intros HD. unfold Qlt, Qminus, Qplus, Qopp, inject_Z. cbn [Qnum Qden].
  rewrite Pos2Z.inj_mul. rewrite Z2Pos.id by lia. lia.
Qed.

(* the integer rounding of the C07 model is round-half-even of the rational P/D *)
Lemma rhe_round_half_even P D : 0 < D -> rhe D P = round_half_even (P # Z.to_pos D).
Proof.
  intros HD. unfold rhe, round_half_even. rewrite (Qfloor_frac P D HD).
  set (f := P / D).
  destruct (Qltb ((P # Z.to_pos D) - inject_Z f) (1 # 2)) eqn:E1.
  - apply Qltb_lt in E1. apply (frac_cmp P D f HD) in E1.
    destruct (2 * (P - f * D) <? D) eqn:E; [reflexivity|apply Z.ltb_ge in E; lia].
  - apply Qltb_ge in E1.
    assert (H1 : ~ 2 * (P - f * D) < D).
    { intros H. apply (frac_cmp P D f HD) in H. lra. }
    destruct (2 * (P - f * D) <? D) eqn:E; [apply Z.ltb_lt in E; contradiction|].
    destruct (Qltb (1 # 2) ((P # Z.to_pos D) - inject_Z f)) eqn:E2.
    + apply Qltb_lt in E2. apply (frac_cmp' P D f HD) in E2.
      destruct (D <? 2 * (P - f * D)) eqn:E3; [reflexivity|apply Z.ltb_ge in E3; lia].
    + apply Qltb_ge in E2.
      assert (H2 : ~ D < 2 * (P - f * D)).
      { intros H. apply (frac_cmp' P D f HD) in H. lra. }
      destruct (D <? 2 * (P - f * D)) eqn:E3; [apply Z.ltb_lt in E3; contradiction|reflexivity].
Qed.

Lemma wrap_index_mod n x : 6 <= n -> -1 <= x <= n + 2 -> wrap_index n x = x mod n.
Proof.
  intros Hn Hx. destruct (wrap_index_cases n x Hn Hx) as [Hr [E|[E|E]]].
  - rewrite E in *. symmetry. apply Z.mod_small. lia.
  - apply (Z.mod_unique x n (-1) (wrap_index n x)); [left; lia|lia].
  - apply (Z.mod_unique x n 1 (wrap_index n x)); [left; lia|lia].
Qed.

(* the grid coordinate the generated kernel computes for a particle at X/D cells (cell size h, box n*h, offset O/D cells) *)
Lemma grid_coord_frac n D O X (h : Q) :
  0 < n -> 0 < D -> (0 < h)%Q ->
  (grid_coord ((X # Z.to_pos D) * h) ((O # Z.to_pos D) * h) (inject_Z n * h) n == (X + O) # Z.to_pos D)%Q.
Proof.
  intros Hn HD Hh. unfold grid_coord.
  assert (Hn' : ~ (inject_Z n == 0)%Q).
  { intros E. assert (Hlt : (inject_Z 0 < inject_Z n)%Q) by (rewrite <- Zlt_Qlt; exact Hn). change (inject_Z 0) with 0%Q in Hlt. lra. }
  assert (Hsum : ((X + O) # Z.to_pos D == (X # Z.to_pos D) + (O # Z.to_pos D))%Q).
  { unfold Qeq, Qplus. cbn [Qnum Qden]. rewrite Pos2Z.inj_mul. ring. }
  rewrite Hsum. field. split; [lra|exact Hn'].
Qed.

Section Axis.
Variables (n D O X : Z) (h : Q).
Hypothesis Hn : 6 <= n.
Hypothesis HD : 0 < D.
Hypothesis HO : 0 <= O < D.
Hypothesis HX : 0 <= X <= n * D.
Hypothesis Hh : (0 < h)%Q.

Let pos := ((X # Z.to_pos D) * h)%Q.
Let off := ((O # Z.to_pos D) * h)%Q.
Let box := (inject_Z n * h)%Q.

Lemma box_pos : (0 < box)%Q.
Proof.
  unfold box. assert (Hlt : (inject_Z 0 < inject_Z n)%Q) by (rewrite <- Zlt_Qlt; lia). change (inject_Z 0) with 0%Q in Hlt.
  apply Qmult_lt_0_compat; assumption.
Qed.

Lemma near_is_rhe : round_half_even (grid_coord pos off box n) = rhe D (X + O).
Proof.
  rewrite (rhe_round_half_even (X + O) D HD). apply round_half_even_comp.
  apply grid_coord_frac; lia || assumption.
Qed.

Lemma rhe_i_ok : i_ok n (rhe D (X + O)).
Proof.
  pose proof (round_range n D O X _ HD HO HX (rhe_is_round D (X + O) HD)) as Hr.
  unfold i_ok. lia.
Qed.

Lemma rows_list : map Some (rows n D O X) =
  [Some ((rhe D (X + O) - 1) mod n); Some (rhe D (X + O) mod n); Some ((rhe D (X + O) + 1) mod n)].
Proof.
  pose proof (round_range n D O X _ HD HO HX (rhe_is_round D (X + O) HD)) as Hr.
  unfold rows. cbn [map]. rewrite !wrap_index_mod by lia. reflexivity.
Qed.

Lemma rows_agree_x : rows_touched n (tsc_axis_x pos off box n) = map Some (rows n D O X).
Proof.
  assert (Hi : tsc_ix (tsc_px pos off n box) = rhe D (X + O)).
  { unfold tsc_ix. rewrite <- near_is_rhe. apply round_half_even_comp. apply tsc_px_spec. apply box_pos. }
  rewrite (rows_touched_ok K_tsc n _ (tsc_axis_x_ok pos off box n ltac:(lia) ltac:(rewrite Hi; apply rhe_i_ok))).
  rewrite rows_list. unfold tsc_axis_x. cbn [a_i]. rewrite Hi. reflexivity.
Qed.

Lemma rows_agree_y : rows_touched n (tsc_axis_y pos off box n) = map Some (rows n D O X).
Proof.
  assert (Hi : tsc_iy (tsc_py pos off n box) = rhe D (X + O)).
  { unfold tsc_iy. rewrite <- near_is_rhe. apply round_half_even_comp. apply tsc_py_spec. apply box_pos. }
  rewrite (rows_touched_ok K_tsc n _ (tsc_axis_y_ok pos off box n ltac:(lia) ltac:(rewrite Hi; apply rhe_i_ok))).
  rewrite rows_list. unfold tsc_axis_y. cbn [a_i]. rewrite Hi. reflexivity.
Qed.

Lemma rows_agree_z : rows_touched n (tsc_axis_z pos off box n) = map Some (rows n D O X).
Proof.
  assert (Hi : tsc_iz (tsc_pz pos off n box) = rhe D (X + O)).
  { unfold tsc_iz. rewrite <- near_is_rhe. apply round_half_even_comp. apply tsc_pz_spec. apply box_pos. }
  rewrite (rows_touched_ok K_tsc n _ (tsc_axis_z_ok pos off box n ltac:(lia) ltac:(rewrite Hi; apply rhe_i_ok))).
  rewrite rows_list. unfold tsc_axis_z. cbn [a_i]. rewrite Hi. reflexivity.
Qed.
End Axis.
