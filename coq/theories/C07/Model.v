(* C07/Model.v — hand-written executable model of what the stripes of the parallel TSC touch.

   Exact arithmetic.  Along the partition axis a particle sits at X/D cells (X, D integers, D > 0, 0 <= X <= n*D:
   positions in [0, box] including the value box that in-place wrapping can produce; every float is such a number),
   the uniform sub-cell offset is O/D cells, 0 <= O < D.

   key        the stripe partition_parallel assigns:  min(floor(x * npartition / box), npartition - 1)
   rhe        round half to even of P/D (numba's round on a float)
   wrap_index _rightwrap followed by NumPy/numba negative-index wrap-around (what an index ix-1 = -1 does)
   rows       the three rows  ix-1, ix, ix+1  (wrapped) that _tsc_scatter updates for the particle

   No proofs here. *)
From Coq Require Import ZArith List Bool.
From Abacus.Common Require Import Arr.
From Abacus.C07 Require Import Gen.
Import ListNotations.
Local Open Scope Z_scope.

Definition key (n np D X : Z) : Z := Z.min ((X * np) / (D * n)) (np - 1).

(* the stripe of a position that was NOT wrapped into [0, box): int() truncates toward zero and a negative key indexes the
   per-thread histogram from the end (outside the precondition of every theorem; see Examples.wrap_is_necessary) *)
Definition key_unwrapped (n np D X : Z) : Z :=
  let k := Z.min (Z.quot (X * np) (D * n)) (np - 1) in if k <? 0 then k + np else k.

Definition rhe (D P : Z) : Z :=
  let f := P / D in
  let rem2 := 2 * (P - f * D) in
  if rem2 <? D then f else if D <? rem2 then f + 1 else if Z.even f then f else f + 1.

Definition wrap_index (n x : Z) : Z :=
  let y := if n <=? x then x - n else x in
  if y <? 0 then y + n else y.

Definition rows (n D O X : Z) : list Z :=
  let r := rhe D (X + O) in [wrap_index n (r - 1); wrap_index n r; wrap_index n (r + 1)].

(* which rows the raw (unwrapped) indices are: used to state that every index is inside the grid *)
Definition raw_rows (D O X : Z) : list Z := let r := rhe D (X + O) in [r - 1; r; r + 1].

(* a deposit list: every particle contributes increments (row offset delta in {-1,0,1}, column c in [0, M), amount) ;
   its cells are  wrap_index n (r + delta) * M + c *)
Record particle (V : Type) := { px : Z ; deps : list (Z * Z * V) }.
Arguments px {V} p.
Arguments deps {V} p.

Definition cell (n D O M : Z) {V} (p : particle V) (d : Z * Z * V) : Z :=
  let '(delta, c, _) := d in wrap_index n (rhe D (px p + O) + delta) * M + c.

Definition well_formed (M : Z) {V} (p : particle V) : Prop :=
  forall delta c w, In (delta, c, w) (deps p) -> (-1 <= delta <= 1) /\ 0 <= c < M.

(* ---- decision and stripe schedule: definitions over the GENERATED functions of Gen.v --------------------- *)

(* what makes a configuration safe: nothing runs concurrently (one thread, or at most two stripes = one per phase),
   or the stripes are at least 3 cells wide and there is an even number of them *)
Definition safe (n nthread np : Z) : Prop :=
  nthread <= 1 \/ np <= 2 \/ (np mod 2 = 0 /\ 3 * np <= n).

(* the slices a phase hands to _tsc_scatter: for i in prange(bound): (starts[lo i], starts[hi i]) — reads are checked *)
Definition phase_slices (bound : Z) (guard : bool) (lo hi : Z -> Z) (starts : list Z) : res (list (Z * Z)) :=
  if guard then
    for_range 0 bound (fun i acc => a <- get starts (lo i) ;; b <- get starts (hi i) ;; Ok (acc ++ [(a, b)])) []
  else Ok [].

Definition schedule (starts : list Z) : res (list (Z * Z) * list (Z * Z)) :=
  let np := len starts - 1 in
  s0 <- phase_slices (phase0_bound np) (phase0_guard np) phase0_plo phase0_phi starts ;;
  s1 <- phase_slices (phase1_bound np) (phase1_guard np) phase1_plo phase1_phi starts ;;
  Ok (s0, s1).

Definition zrange (n : Z) : list Z := map Z.of_nat (seq 0 (Z.to_nat n)).
Definition stripe (starts : list Z) (k : Z) : Z * Z := (nth (Z.to_nat k) starts 0, nth (Z.to_nat (k + 1)) starts 0).
