(* C07/Findings.v — kernel-checked record of two defects of the original abacusnbody/analysis/tsc.py
   (repaired by `fix:` commits, see /verif/known_findings.json).

   1. The original default/validation accepted npartition = n1d//2 (stripes 2 cells wide): concurrently processed stripes
      then share grid rows and an interleaving loses a deposit.
   2. The second phase of _tsc_parallel iterated (npartition+1)//2 times: for an odd stripe count (allowed with one
      thread) it read starts[npartition+1], one past the end. *)
From Coq Require Import ZArith List Bool Lia.
From Abacus.Common Require Import Arr Par.
From Abacus.C07 Require Import Model Decide Sched.
Import ListNotations.
Local Open Scope Z_scope.
Local Open Scope res_scope.

(* frozen copy of what the translator produced from the original source *)
Definition tsc_decide_orig (n1d : Z) (nthread : Z) (npartition : Z) : res Z :=
  npartition <- (if (negb (negb (npartition =? 0)%Z)) then
  npartition <- (if (1%Z <? nthread)%Z then
  npartition <- (if ((n1d / 2%Z)%Z <=? (2%Z * nthread)%Z)%Z then
  let npartition := (n1d / 2%Z)%Z in
  let npartition := (2%Z * (npartition / 2%Z)%Z)%Z in
  npartition <- (if (npartition <? (n1d / 2%Z)%Z)%Z then
  let npartition := (n1d / 3%Z)%Z in
  Ok npartition
  else
  Ok npartition) ;;
  Ok npartition
  else
  let npartition := (Z.min (n1d / 3%Z)%Z (2%Z * nthread)%Z) in
  Ok npartition) ;;
  let npartition := (2%Z * (npartition / 2%Z)%Z)%Z in
  Ok npartition
  else
  let npartition := 1%Z in
  Ok npartition) ;;
  Ok npartition
  else
  Ok npartition) ;;
  if (andb (andb ((n1d / 3%Z)%Z <? npartition)%Z (negb (npartition =? (n1d / 2%Z)%Z)%Z)) (1%Z <? nthread)%Z) then
  Raise ValueError
  else
  if (andb (andb (1%Z <? npartition)%Z (negb ((npartition mod 2%Z)%Z =? 0%Z)%Z)) (1%Z <? nthread)%Z) then
  Raise ValueError
  else
  Ok npartition.

(* the statement of accepted_safe is false of the original: grid 8, two threads, default stripe count 4 *)
Theorem accepted_safe_orig_refuted : exists n nthread np,
  0 <= n /\ tsc_decide_orig n nthread 0 = Ok np /\ ~ safe n nthread np.
Proof.
  exists 8, 2, 4. split; [lia|]. split; [vm_compute; reflexivity|].
  unfold safe. intros [H|[H|[_ H]]]; lia.
Qed.

(* ... and so are explicit choices: npartition = n1d//2 was accepted *)
Theorem explicit_half_accepted_orig : tsc_decide_orig 16 4 8 = Ok 8 /\ ~ safe 16 4 8.
Proof. split; [vm_compute; reflexivity|]. unfold safe. intros [H|[H|[_ H]]]; lia. Qed.

(* with that configuration stripes 0 and 2 (same phase) share row 3: a particle at 1.5 cells and one at 4.0 cells *)
Theorem shared_row_orig :
  key 8 4 2 3 = 0 /\ key 8 4 2 8 = 2 /\ In 3 (rows 8 2 0 3) /\ In 3 (rows 8 2 0 8).
Proof. vm_compute. repeat split; auto. Qed.

(* and an interleaving of the two stripes' threads loses one of the two deposits into that row *)
Definition p1 : particle Z := {| px := 3 ; deps := [(1, 0, 1)] |}.
Definition p2 : particle Z := {| px := 8 ; deps := [(-1, 0, 1)] |}.
Theorem lost_deposit_orig :
  let threads := map (stripe_ops Z Z.add 8 2 0 1) [[p1]; [p2]] in
  fst (run [0%nat; 1%nat; 0%nat; 1%nat] (init threads (fun _ => 0) 0)) 3 = 1 /\
  seq_run threads (fun _ => 0) 0 3 = 2.
Proof. split; vm_compute; reflexivity. Qed.

(* 2. the original second phase *)
Definition phase1_bound_orig (npartition : Z) : Z := ((npartition + 1%Z)%Z / 2%Z)%Z.
Definition schedule_orig (starts : list Z) : res (list (Z * Z) * list (Z * Z)) :=
  let np := len starts - 1 in
  s0 <- phase_slices (Gen.phase0_bound np) (Gen.phase0_guard np) Gen.phase0_plo Gen.phase0_phi starts ;;
  s1 <- phase_slices (phase1_bound_orig np) (Gen.phase1_guard np) Gen.phase1_plo Gen.phase1_phi starts ;;
  Ok (s0, s1).

Theorem schedule_orig_refuted : exists starts, 2 <= len starts /\ schedule_orig starts = Oob.
Proof. exists [0; 1; 2; 3]. split; vm_compute; [discriminate|reflexivity]. Qed.
