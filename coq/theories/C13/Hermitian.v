(* C13/Hermitian.v — what ties the stored HALF mesh (scipy.fft.rfftn, C08's multiplicities 1 / 2) to the full
   n1 x n2 x n3 DFT of Dft.v, for every (anisotropic) mesh size and any commutative ring with roots of unity:

     dft_hermitian      for a real mesh f (conj (f j) = f j for every cell),  conj (F f k) = F f (-k);
     power_even         hence  F f (-k) * conj (F f (-k)) = F f k * conj (F f k): the raw power is an even function of k;
     halfmesh_sum       for ANY even G (G (-k) = G k; e.g. raw power x indicator of a (|k|, |mu|) or (k_perp, |k_par|) bin,
                        which depend on k only through the squared folded frequencies), the sum of G over the FULL mesh is
                        the sum over the stored half  k3 <= N3 / 2  with the multiplicity bin_kmu / bin_kppi use:
                        1 on the self-conjugate planes k3 = 0 and 2 k3 = N3, 2 elsewhere (G k *+ m is the m-fold sum).

   So the quantity C08.bin_means identifies (half-mesh sum with multiplicities = sum over the modes of the full mesh
   extended by Hermitian symmetry) is, for the DFT of a real field, the plain sum over all n1 n2 n3 Fourier modes.
   ssreflect/mathcomp style (this file only). *)
From mathcomp Require Import all_ssreflect ssralg zmodp.
From mathcomp Require Import ring zify.
From Abacus.C13 Require Import Model Spec Dft.
Set Implicit Arguments.
Unset Strict Implicit.
Unset Printing Implicit Defensive.
Import GRing.Theory.
Local Open Scope ring_scope.

Section Axis.
  Variable R : comRingType.
  Variable cj : {rmorphism R -> R}.

  Lemma inv_unique (a x y : R) : a * x = 1 -> a * y = 1 -> x = y.
  Proof. move=> ax ay. by rewrite -[x]mulr1 -ay mulrA [x * a]mulrC ax mul1r. Qed.

  Lemma val_opp (n : nat) (k : 'I_n.+1) : ((- k)%R : nat) = ((n.+1 - k) %% n.+1)%N.
  Proof. by []. Qed.

  (* one axis: the twiddle factor at the opposite frequency is the conjugate *)
  Lemma root_pow_opp (n : nat) (w : R) (j k : 'I_n.+1) :
    w ^+ n.+1 = 1 -> w * cj w = 1 -> w ^+ (j * (- k)%R) = cj (w ^+ (j * k)).
  Proof.
    move=> wn1 wc.
    apply: (@inv_unique (w ^+ (j * k))).
    - rewrite val_opp !exprM.
      have wjn : (w ^+ j) ^+ n.+1 = 1 by rewrite -exprM mulnC exprM wn1 expr1n.
      rewrite (expr_mod _ wjn) -exprD subnKC ?wjn //.
      exact: ltnW (ltn_ord k).
    - by rewrite rmorphX -exprMn wc expr1n.
  Qed.
End Axis.

Section Hermitian.
  Variable R : comRingType.
  Variables n1 n2 n3 : nat.
  Variables w1 w2 w3 : R.
  Hypothesis w1n : w1 ^+ n1.+1 = 1.
  Hypothesis w2n : w2 ^+ n2.+1 = 1.
  Hypothesis w3n : w3 ^+ n3.+1 = 1.
  Variable cj : {rmorphism R -> R}.
  Hypothesis cj_w1 : w1 * cj w1 = 1.
  Hypothesis cj_w2 : w2 * cj w2 = 1.
  Hypothesis cj_w3 : w3 * cj w3 = 1.

  Notation cellT := (cellT n1 n2 n3).
  Notation tw := (@tw R n1 n2 n3 w1 w2 w3).
  Notation dft := (@dft R n1 n2 n3 w1 w2 w3).

  Lemma tw_opp (j k : cellT) : tw j (- k) = cj (tw j k).
  Proof.
    case: j => [[j1 j2] j3]; case: k => [[k1 k2] k3].
    rewrite /Dft.tw /= !rmorphM.
    by rewrite (root_pow_opp j1 k1 w1n cj_w1) (root_pow_opp j2 k2 w2n cj_w2) (root_pow_opp j3 k3 w3n cj_w3).
  Qed.

  Lemma dft_hermitian_lemma (f : cellT -> R) :
    (forall j, cj (f j) = f j) -> forall k, cj (dft f k) = dft f (- k).
  Proof.
    move=> fr k. rewrite /Dft.dft rmorph_sum.
    apply: eq_bigr => j _. by rewrite rmorphM fr tw_opp.
  Qed.

  Lemma power_even_lemma (cjK : involutive cj) (f : cellT -> R) :
    (forall j, cj (f j) = f j) -> forall k, dft f (- k) * cj (dft f (- k)) = dft f k * cj (dft f k).
  Proof.
    move=> fr k. by rewrite -(dft_hermitian_lemma fr) cjK mulrC.
  Qed.
End Hermitian.

Section HalfMesh.
  Variable V : zmodType.                 (* where the summed quantity lives: any additive group (a ring, Z, ...) *)
  Variables n1 n2 n3 : nat.
  Notation cellT := (cellT n1 n2 n3).

  (* the last axis has N3 = n3.+1 cells; rfftn stores k3 = 0 .. N3 / 2 *)
  Definition in_half (k : cellT) : bool := (k.2 <= n3.+1 ./2)%N.
  Definition hmult (k : cellT) : nat := if ((k.2 : nat) == 0%N) || ((k.2 : nat).*2 == n3.+1) then 1%N else 2%N.

  Lemma opp_cell (k : cellT) : - k = (- k.1.1, - k.1.2, - k.2).
  Proof. by case: k => [[a b] c]. Qed.

  Lemma opp_half (k : cellT) : ~~ in_half (- k) = (0 < k.2)%N && ((k.2 : nat).*2 < n3.+1)%N.
  Proof.
    rewrite /in_half opp_cell /=.
    have kn := ltn_ord k.2.
    case k0 : ((k.2 : nat) == 0%N).
    - move/eqP: k0 => ->. by rewrite subn0 modnn.
    - have kpos : (0 < k.2)%N by rewrite lt0n k0.
      rewrite modn_small; last by lia.
      rewrite kpos /=. lia.
  Qed.

  Theorem halfmesh_sum_lemma (G : cellT -> V) :
    (forall k, G (- k) = G k) ->
    \sum_(k : cellT) G k = \sum_(k : cellT | in_half k) G k *+ hmult k.
  Proof.
    move=> Geven.
    rewrite (bigID in_half) /=.
    (* the modes beyond the stored half, reindexed by k |-> -k *)
    have -> : \sum_(k : cellT | ~~ in_half k) G k = \sum_(k : cellT | ~~ in_half (- k)) G k.
      have oi : injective (fun k : cellT => - k) by exact: oppr_inj.
      rewrite (reindex_inj oi) /=. by apply: eq_bigr => k _; rewrite Geven.
    have -> : \sum_(k : cellT | ~~ in_half (- k)) G k = \sum_(k : cellT | in_half k && (hmult k == 2%N)) G k.
      apply: eq_bigl => k. rewrite opp_half /in_half /hmult.
      have kn := ltn_ord k.2.
      move: (k.2 : nat) kn => m kn.
      case: (m =P 0%N) => [->|k0] //=.
      case: (m.*2 =P n3.+1) => [e|ne] /=; first by rewrite andbF; lia.
      rewrite andbT. lia.
    rewrite [X in _ = X](bigID (fun k => hmult k == 2%N)) /=.
    rewrite [X in _ = X + _](eq_bigr (fun k => G k + G k)); last first.
      by move=> k /andP [_ /eqP ->]; rewrite mulr2n.
    rewrite [X in _ = _ + X](eq_bigr G); last first.
      move=> k /andP [_]. rewrite /hmult. by case: ifP => //= _; rewrite mulr1n.
    rewrite big_split /= (bigID (fun k => hmult k == 2%N) in_half) /=.
    by rewrite addrAC addrC addrA.
  Qed.
End HalfMesh.
