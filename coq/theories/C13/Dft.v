(* C13/Dft.v — the hypotheses of Spec.PipeOk discharged for the textbook discrete Fourier transform.

   Model.v / Spec.v keep F (scipy.fft.rfftn) abstract and assume the shift theorem.  Here F is the n1 x n2 x n3 DFT
       F f (k1,k2,k3) = sum_{j1<n1, j2<n2, j3<n3} f (j1,j2,j3) * w1^(j1 k1) * w2^(j2 k2) * w3^(j3 k3)
   over ANY commutative ring R with roots of unity w_i ^ n_i = 1 and a conjugation (an involutive ring morphism with
   w_i * conj w_i = 1), for every (anisotropic) mesh size; cells and whole-cell translations are triples of residues,
   roll is addition mod (n1,n2,n3); a particle is (position, weight) and deposits weight * kern(position, cell), where
   kern is any function invariant under the joint translation of position and cell (what C06.cell_shift_rolls proves
   of the TSC and CIC deposits).  dft_pipe_ok proves PipeOk for that pipeline, so the C13 symmetry theorems hold of it
   with no hypothesis left on the transform; algC_roots instantiates R with mathcomp's algebraic complex numbers, where
   the primitive root exp(2 pi i / n) exists for every n and conj is complex conjugation.

   ssreflect/mathcomp style (this file only). *)
From mathcomp Require Import all_ssreflect ssralg ssrnum poly zmodp algC cyclotomic.
From mathcomp Require Import ring.
From Coq Require Import Ring_theory.
From Abacus.C13 Require Import Model Spec.
Set Implicit Arguments.
Unset Strict Implicit.
Unset Printing Implicit Defensive.
Import GRing.Theory Num.Theory.
Local Open Scope ring_scope.

Section RootPow.
  Variable R : comRingType.
  (* one axis: indices are residues mod n.+1 (an ordinal with its additive group structure) *)
  Lemma root_pow_add (n : nat) (w : R) (i a : 'I_n.+1) (k : nat) :
    w ^+ n.+1 = 1 -> w ^+ ((i + a)%R * k) = w ^+ (a * k) * w ^+ (i * k).
  Proof.
    move=> wn1.
    have -> : ((i + a)%R : nat) = ((i + a) %% n.+1)%N by [].
    by rewrite exprM (expr_mod _ wn1) exprD exprMn -!exprM mulrC.
  Qed.
End RootPow.

Section DFT.
  Variable R : comRingType.
  Variables n1 n2 n3 : nat.                       (* the mesh is n1.+1 x n2.+1 x n3.+1: every size >= 1 *)
  Variables w1 w2 w3 : R.
  Hypothesis w1n : w1 ^+ n1.+1 = 1.
  Hypothesis w2n : w2 ^+ n2.+1 = 1.
  Hypothesis w3n : w3 ^+ n3.+1 = 1.
  Variable cj : {rmorphism R -> R}.               (* conjugation *)
  Hypothesis cjK : involutive cj.
  Hypothesis cj_w1 : w1 * cj w1 = 1.
  Hypothesis cj_w2 : w2 * cj w2 = 1.
  Hypothesis cj_w3 : w3 * cj w3 = 1.
  Variable rpart : R -> R.                        (* .real *)
  Hypothesis rpart_self : forall x, cj x = x -> rpart x = x.

  Definition cellT := ('I_n1.+1 * 'I_n2.+1 * 'I_n3.+1)%type.

  Definition tw (j k : cellT) : R :=
    w1 ^+ (j.1.1 * k.1.1) * w2 ^+ (j.1.2 * k.1.2) * w3 ^+ (j.2 * k.2).

  Definition dft (f : cellT -> R) (k : cellT) : R := \sum_(j : cellT) f j * tw j k.

  Definition phase (a k : cellT) : R := tw a k.

  Lemma tw_add (j a k : cellT) : tw (j + a) k = phase a k * tw j k.
  Proof.
    case: j => [[j1 j2] j3]; case: a => [[a1 a2] a3]; case: k => [[k1 k2] k3].
    rewrite /phase /tw /=.
    rewrite (root_pow_add j1 a1 k1 w1n) (root_pow_add j2 a2 k2 w2n) (root_pow_add j3 a3 k3 w3n).
    by ring.
  Qed.

  (* the shift theorem: if g is f rolled by a (g (c + a) = f c for every cell) then F g = phase a . F f *)
  Lemma dft_shift (a : cellT) (f g : cellT -> R) :
    (forall c, g (c + a) = f c) -> forall k, dft g k = phase a k * dft f k.
  Proof.
    move=> H k. rewrite /dft (reindex_inj (addIr a)) /= mulr_sumr.
    apply: eq_bigr => j _. by rewrite H tw_add mulrCA.
  Qed.

  Lemma dft_ext (f g : cellT -> R) : (forall c, f c = g c) -> forall k, dft f k = dft g k.
  Proof. move=> H k. by apply: eq_bigr => j _; rewrite H. Qed.

  Lemma pow_unit (w : R) (m : nat) : w * cj w = 1 -> w ^+ m * cj (w ^+ m) = 1.
  Proof. by move=> H; rewrite rmorphX -exprMn H expr1n. Qed.

  Lemma phase_unit (a k : cellT) : phase a k * cj (phase a k) = 1.
  Proof.
    rewrite /phase /tw !rmorphM.
    set x := w1 ^+ _; set y := w2 ^+ _; set z := w3 ^+ _.
    have -> : x * y * z * (cj x * cj y * cj z) = (x * cj x) * (y * cj y) * (z * cj z).
      by ring.
    by rewrite !pow_unit // !mulr1.
  Qed.

  (* particles: (position, weight); the deposit kernel is translation invariant *)
  Variable posT : Type.
  Variable padd : cellT -> posT -> posT.
  Variable kern : bool -> posT -> cellT -> R.
  Hypothesis kern_shift : forall off a x c, kern off (padd a x) (c + a) = kern off x c.

  (* everything else of the pipeline is arbitrary: normalisations, interlacing phase, window, binning *)
  Variable nrm0 : nat -> R.
  Variables inv_size0 : R.
  Variables psi0 winv0 mult0 : cellT -> R.
  Variable modes0 : list cellT.
  Variable bin_of0 : cellT -> option nat.
  Variable multZ0 : cellT -> BinInt.Z.
  Variable ninv0 : BinInt.Z -> R.
  Variable nbins0 : nat.

  Definition dft_pipe : Pipe := {|
    C := R; c0 := 0; c1 := 1; cadd := +%R; cmul := *%R; csub := fun x y => x - y; copp := -%R;
    conj := cj; re := rpart;
    cell := cellT; mode := cellT; part := (posT * R)%type; shift := cellT;
    roll := fun a c => c + a;
    pshift := fun a p => (padd a p.1, p.2);
    K := fun off p c => p.2 * kern off p.1 c;
    F := dft; phi := phase;
    nrm := nrm0; inv_size := inv_size0; psi := psi0; winv := winv0;
    modes := modes0; bin_of := bin_of0; mult := mult0; multZ := multZ0; ninv := ninv0; nbins := nbins0;
  |}.

  Lemma comring_rt : ring_theory (0 : R) 1 +%R *%R (fun x y => x - y) -%R eq.
  Proof.
    split.
    - exact: add0r.
    - exact: addrC.
    - exact: addrA.
    - exact: mul1r.
    - exact: mulrC.
    - exact: mulrA.
    - exact: mulrDl.
    - by [].
    - exact: subrr.
  Qed.

  Lemma dft_pipe_ok_lemma : PipeOk dft_pipe.
  Proof.
    split; rewrite /=.
    - exact: comring_rt.
    - move=> a b. exact: rmorphM.
    - exact: cjK.
    - exact: rpart_self.
    - exact: dft_ext.
    - exact: dft_shift.
    - exact: phase_unit.
    - move=> off a p c. by rewrite kern_shift.
  Qed.
End DFT.

(* mathcomp's algebraic complex numbers: for every n there is a primitive n-th root of unity, and complex conjugation
   inverts it — so the section hypotheses on (R, w, cj) are satisfiable for every mesh size *)
Lemma algC_roots_lemma (n : nat) : exists w : algC, [/\ n.+1.-primitive_root w, w ^+ n.+1 = 1 & w * conjC w = 1].
Proof.
  have [w pw] := C_prim_root_exists (ltn0Sn n).
  exists w. split => //; first exact: prim_expr_order pw.
  have wn1 := prim_expr_order pw.
  have nw : `|w| = 1.
    apply/eqP. rewrite -(@pexpr_eq1 _ _ n.+1) //. by rewrite -normrX wn1 normr1.
  by rewrite -normCK nw expr1n.
Qed.

Lemma algC_re_self_lemma (x : algC) : conjC x = x -> 'Re x = x.
Proof. by move=> /CrealP xr; apply/Creal_ReP. Qed.
