(* C13/Examples.v — non-vacuity: the hypotheses PipeOk are satisfied by a concrete, non-degenerate pipeline
   (the textbook DFT on a 2-cell mesh over Z, nearest-cell deposits), and regression values on it. *)
From Coq Require Import ZArith List Bool Permutation Ring_theory InitialRing Lia.
From Abacus.C13 Require Import Model Spec.
Import ListNotations.
Local Open Scope Z_scope.

Definition sgn (k : bool) : Z := if k then -1 else 1.

Definition toy : Pipe := {|
  C := Z; c0 := 0; c1 := 1; cadd := Z.add; cmul := Z.mul; csub := Z.sub; copp := Z.opp;
  conj := fun z => z; re := fun z => z;
  cell := bool; mode := bool; part := (bool * Z)%type; shift := bool;
  roll := xorb;
  pshift := fun a p => (xorb a (fst p), snd p);
  K := fun _ p c => if Bool.eqb (fst p) c then snd p else 0;
  F := fun f k => f false + sgn k * f true;
  phi := fun a k => if a && k then -1 else 1;
  nrm := fun N => 2;
  inv_size := 1;
  psi := sgn;
  winv := fun k => 3;
  modes := [false; true];
  bin_of := fun k => Some (if k then 1%nat else 0%nat);
  mult := fun _ => 1; multZ := fun _ => 1;
  ninv := fun z => z;
  nbins := 2;
|}.

Example toy_ok : PipeOk toy.
Proof.
  constructor; cbn -[Z.mul Z.add].
  - exact Zth.
  - reflexivity.
  - reflexivity.
  - intros w _. reflexivity.
  - intros f g H k. rewrite !H. reflexivity.
  - intros a f g H k. pose proof (H false) as H0. pose proof (H true) as H1.
    destruct a; cbn in H0, H1; destruct k; cbn -[Z.mul Z.add]; lia.
  - intros a k. destruct a; destruct k; reflexivity.
  - intros off a p c. destruct p as [pc w]. cbn. destruct a; destruct pc; destruct c; reflexivity.
Qed.

Definition parts : list (part toy) := [(false, 3); (true, 5); (false, 1)].
Definition cfgs := [ {| interlaced := false; compensated := false |}; {| interlaced := true; compensated := true |} ].

Example toy_values : map (fun cfg => calc_power toy cfg parts None) cfgs = [[(256, 1); (4, 1)]; [(9216, 1); (0, 1)]].
Proof. vm_compute. reflexivity. Qed.
Example toy_shifted : map (fun cfg => calc_power toy cfg (shift_all toy true parts) None) cfgs
                    = map (fun cfg => calc_power toy cfg parts None) cfgs.
Proof. vm_compute. reflexivity. Qed.
Example toy_cross : map (fun cfg => calc_power toy cfg parts (Some parts)) cfgs
                  = map (fun cfg => calc_power toy cfg parts None) cfgs.
Proof. vm_compute. reflexivity. Qed.
Example hyp_perm : Permutation parts [(true, 5); (false, 3); (false, 1)].
Proof. apply perm_swap. Qed.
