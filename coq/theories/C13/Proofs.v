(* C13/Proofs.v — the symmetries of the abstract pipeline. *)
From Coq Require Import ZArith List Bool Ring Ring_theory Permutation Lia.
From Abacus.C13 Require Import Model Spec.
Import ListNotations.

Section PROOFS.
  Variable X : Pipe.
  Hypothesis OK : PipeOk X.

  Add Ring Cring : (ring_ok X OK).

  Notation "a + b" := (cadd X a b).
  Notation "a * b" := (cmul X a b).
  Notation "a - b" := (csub X a b).

  (* ---- painting ---------------------------------------------------------------------------------------- *)
  Lemma paint_perm off P P' c : Permutation P P' -> paint X off P c = paint X off P' c.
  Proof.
    induction 1 as [|p l l' HP IH|p q l|l l' l'' H1 IH1 H2 IH2]; unfold paint in *; cbn [fold_right].
    - reflexivity.
    - rewrite IH. reflexivity.
    - ring.
    - rewrite IH1. exact IH2.
  Qed.

  Lemma paint_shift off a P c : paint X off (shift_all X a P) (roll X a c) = paint X off P c.
  Proof.
    unfold shift_all, paint. induction P as [|p l IH]; cbn [map fold_right]; [reflexivity|].
    rewrite IH. rewrite (K_shift X OK). reflexivity.
  Qed.

  Lemma delta_perm off P P' c : Permutation P P' -> delta X off P c = delta X off P' c.
  Proof. intros H. unfold delta. rewrite (paint_perm off P P' c H). rewrite (Permutation_length H). reflexivity. Qed.

  Lemma delta_shift off a P c : delta X off (shift_all X a P) (roll X a c) = delta X off P c.
  Proof. unfold delta. rewrite paint_shift. unfold shift_all. rewrite map_length. reflexivity. Qed.

  (* ---- Fourier field ------------------------------------------------------------------------------------- *)
  Lemma field_fft_perm cfg P P' k : Permutation P P' -> field_fft X cfg P k = field_fft X cfg P' k.
  Proof.
    intros H. unfold field_fft.
    rewrite (F_ext X OK (delta X false P) (delta X false P') (fun c => delta_perm false P P' c H) k).
    rewrite (F_ext X OK (delta X true P) (delta X true P') (fun c => delta_perm true P P' c H) k).
    reflexivity.
  Qed.

  (* a translation by whole cells multiplies every mode by the same unimodular phase, interlaced or not,
     compensated or not *)
  Lemma field_fft_shift cfg a P k :
    field_fft X cfg (shift_all X a P) k = phi X a k * field_fft X cfg P k.
  Proof.
    unfold field_fft.
    rewrite (F_shift X OK a (delta X false P) (delta X false (shift_all X a P)) (fun c => delta_shift false a P c) k).
    rewrite (F_shift X OK a (delta X true P) (delta X true (shift_all X a P)) (fun c => delta_shift true a P c) k).
    destruct (interlaced cfg); destruct (compensated cfg); ring.
  Qed.

  (* ---- raw power ------------------------------------------------------------------------------------------ *)
  Definition opt_rel (R : list (part X) -> list (part X) -> Prop) (A B : option (list (part X))) : Prop :=
    match A, B with None, None => True | Some a, Some b => R a b | _, _ => False end.

  Lemma raw_power_perm cfg P P' P2 P2' k :
    Permutation P P' -> opt_rel (@Permutation _) P2 P2' ->
    raw_power X cfg P P2 k = raw_power X cfg P' P2' k.
  Proof.
    intros H H2. unfold raw_power. destruct P2 as [Q|]; destruct P2' as [Q'|]; cbn [opt_rel] in H2; try contradiction.
    - rewrite (field_fft_perm cfg P P' k H). rewrite (field_fft_perm cfg Q Q' k H2). reflexivity.
    - rewrite (field_fft_perm cfg P P' k H). reflexivity.
  Qed.

  Lemma phase_cancels a k u v : conj X (phi X a k * u) * (phi X a k * v) = conj X u * v.
  Proof.
    rewrite (conj_mul X OK).
    transitivity ((phi X a k * conj X (phi X a k)) * (conj X u * v)); [ring|].
    rewrite (phi_unit X OK). ring.
  Qed.

  Lemma raw_power_shift cfg a P P2 k :
    raw_power X cfg (shift_all X a P) (option_map (shift_all X a) P2) k = raw_power X cfg P P2 k.
  Proof.
    unfold raw_power. destruct P2 as [Q|]; cbn [option_map]; rewrite !field_fft_shift; rewrite phase_cancels; reflexivity.
  Qed.

  Lemma raw_power_cross_auto cfg P k : raw_power X cfg P (Some P) k = raw_power X cfg P None k.
  Proof.
    unfold raw_power. apply (re_selfconj X OK).
    rewrite (conj_mul X OK). rewrite (conj_invol X OK). ring.
  Qed.

  (* ---- binning -------------------------------------------------------------------------------------------- *)
  Lemma wsum_ext p q b : (forall k, p k = q k) -> wsum X p b = wsum X q b.
  Proof.
    intros H. unfold wsum. induction (modes X) as [|k l IH]; cbn [fold_right]; [reflexivity|].
    rewrite IH. rewrite H. reflexivity.
  Qed.

  Lemma power_perm_invariant_lemma cfg P P' P2 P2' b :
    Permutation P P' -> opt_rel (@Permutation _) P2 P2' ->
    power X cfg P P2 b = power X cfg P' P2' b.
  Proof.
    intros H H2. unfold power. f_equal. apply wsum_ext. intros k. apply raw_power_perm; assumption.
  Qed.

  Lemma power_cellshift_invariant_lemma cfg a P P2 b :
    power X cfg (shift_all X a P) (option_map (shift_all X a) P2) b = power X cfg P P2 b.
  Proof. unfold power. f_equal. apply wsum_ext. intros k. apply raw_power_shift. Qed.

  Lemma cross_equals_auto_lemma cfg P b : power X cfg P (Some P) b = power X cfg P None b.
  Proof. unfold power. f_equal. apply wsum_ext. intros k. apply raw_power_cross_auto. Qed.

  Lemma calc_power_ext cfg P P2 Q Q2 :
    (forall b, power X cfg P P2 b = power X cfg Q Q2 b) -> calc_power X cfg P P2 = calc_power X cfg Q Q2.
  Proof. intros H. unfold calc_power. apply map_ext. intros b. rewrite H. reflexivity. Qed.
End PROOFS.

(* whole tables *)
Lemma table_perm_invariant X (OK : PipeOk X) cfg P P' P2 P2' :
  Permutation P P' -> opt_rel X (@Permutation _) P2 P2' -> calc_power X cfg P P2 = calc_power X cfg P' P2'.
Proof. intros H H2. apply calc_power_ext. intros b. apply power_perm_invariant_lemma; assumption. Qed.

Lemma table_cellshift_invariant X (OK : PipeOk X) cfg a P P2 :
  calc_power X cfg (shift_all X a P) (option_map (shift_all X a) P2) = calc_power X cfg P P2.
Proof. apply calc_power_ext. intros b. apply power_cellshift_invariant_lemma; assumption. Qed.

Lemma table_cross_equals_auto X (OK : PipeOk X) cfg P : calc_power X cfg P (Some P) = calc_power X cfg P None.
Proof. apply calc_power_ext. intros b. apply cross_equals_auto_lemma; assumption. Qed.

(* non-interference: N_mode, the number of rows and hence the k and mu ranges do not depend on the particles *)
Lemma nmode_independent X cfg cfg' P P2 Q Q2 :
  map snd (calc_power X cfg P P2) = map snd (calc_power X cfg' Q Q2) /\
  length (calc_power X cfg P P2) = nbins X /\
  map snd (calc_power X cfg P P2) = map (n_mode X) (seq 0 (nbins X)).
Proof.
  unfold calc_power. rewrite !map_map. cbn [snd]. split; [reflexivity|]. split; [|reflexivity].
  rewrite map_length, seq_length. reflexivity.
Qed.
