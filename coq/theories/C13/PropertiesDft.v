(* C13/PropertiesDft.v — the symmetry theorems of Properties.v with NO hypothesis left on the Fourier transform:
   F is the n1 x n2 x n3 discrete Fourier transform over a commutative ring with roots of unity (Dft.v), for every
   anisotropic mesh size, and in particular over the algebraic complex numbers with the primitive roots exp(2 pi i/n)
   (what scipy.fft.rfftn computes up to rounding, restricted to the stored half mesh `modes`).  Still abstract: the
   deposit kernel (any translation-invariant one: C06.cell_shift_rolls), the constants, the binning.  ssreflect style. *)
From mathcomp Require Import all_ssreflect ssralg ssrnum poly zmodp algC cyclotomic.
From Coq Require Import List.
From Abacus.C13 Require Import Model Spec Properties Dft Hermitian.
Set Implicit Arguments.
Unset Strict Implicit.
Unset Printing Implicit Defensive.
Import GRing.Theory Num.Theory.
Local Open Scope ring_scope.

(* the DFT pipeline satisfies every hypothesis of Spec.PipeOk *)
Theorem dft_pipe_ok :
  forall (R : comRingType) (n1 n2 n3 : nat) (w1 w2 w3 : R),
    w1 ^+ n1.+1 = 1 -> w2 ^+ n2.+1 = 1 -> w3 ^+ n3.+1 = 1 ->
  forall cj : {rmorphism R -> R}, involutive cj ->
    w1 * cj w1 = 1 -> w2 * cj w2 = 1 -> w3 * cj w3 = 1 ->
  forall rpart : R -> R, (forall x, cj x = x -> rpart x = x) ->
  forall (posT : Type) (padd : cellT n1 n2 n3 -> posT -> posT) (kern : bool -> posT -> cellT n1 n2 n3 -> R),
    (forall off a x c, kern off (padd a x) (c + a) = kern off x c) ->
  forall nrm0 inv_size0 psi0 winv0 mult0 modes0 bin_of0 multZ0 ninv0 nbins0,
    PipeOk (@dft_pipe R n1 n2 n3 w1 w2 w3 cj rpart posT padd kern nrm0 inv_size0 psi0 winv0 mult0 modes0 bin_of0 multZ0 ninv0 nbins0).
Proof.
  move=> R n1 n2 n3 w1 w2 w3 H1 H2 H3 cj cjK C1 C2 C3 rpart Hr posT padd kern Hk *.
  exact: dft_pipe_ok_lemma.
Qed.
Print Assumptions dft_pipe_ok.

(* the shift theorem itself, for the 3-D DFT on any mesh *)
Theorem dft_shift_theorem :
  forall (R : comRingType) (n1 n2 n3 : nat) (w1 w2 w3 : R),
    w1 ^+ n1.+1 = 1 -> w2 ^+ n2.+1 = 1 -> w3 ^+ n3.+1 = 1 ->
  forall (a : cellT n1 n2 n3) (f g : cellT n1 n2 n3 -> R),
    (forall c, g (c + a) = f c) -> forall k, dft w1 w2 w3 g k = phase w1 w2 w3 a k * dft w1 w2 w3 f k.
Proof. move=> R n1 n2 n3 w1 w2 w3 H1 H2 H3 a f g H k. exact: dft_shift. Qed.
Print Assumptions dft_shift_theorem.

(* roots of unity with the conjugation property exist in the algebraic complex numbers for every mesh size *)
Theorem algC_roots : forall n : nat, exists w : algC, [/\ n.+1.-primitive_root w, w ^+ n.+1 = 1 & w * conjC w = 1].
Proof. exact: algC_roots_lemma. Qed.
Print Assumptions algC_roots.

(* ★ the three symmetries for the complex DFT pipeline on every mesh n1 x n2 x n3 >= 1: with the primitive roots of unity
   of algC, complex conjugation and the real part, any translation-invariant deposit kernel and any binning *)
Theorem complex_dft_symmetries :
  forall (n1 n2 n3 : nat), exists w1 w2 w3 : algC,
    [/\ n1.+1.-primitive_root w1, n2.+1.-primitive_root w2 & n3.+1.-primitive_root w3] /\
  forall (posT : Type) (padd : cellT n1 n2 n3 -> posT -> posT) (kern : bool -> posT -> cellT n1 n2 n3 -> algC),
    (forall off a x c, kern off (padd a x) (c + a) = kern off x c) ->
  forall nrm0 inv_size0 psi0 winv0 mult0 modes0 bin_of0 multZ0 ninv0 nbins0,
  let X := @dft_pipe [comRingType of algC] n1 n2 n3 w1 w2 w3 [rmorphism of conjC] (fun x : algC => 'Re x) posT padd kern
             nrm0 inv_size0 psi0 winv0 mult0 modes0 bin_of0 multZ0 ninv0 nbins0 in
  (forall cfg a P P2, calc_power X cfg (shift_all X a P) (option_map (shift_all X a) P2) = calc_power X cfg P P2) /\
  (forall cfg P P' , Permutation.Permutation P P' -> calc_power X cfg P None = calc_power X cfg P' None) /\
  (forall cfg P, calc_power X cfg P (Some P) = calc_power X cfg P None).
Proof.
  move=> n1 n2 n3.
  have [w1 [p1 e1 c1]] := algC_roots_lemma n1.
  have [w2 [p2 e2 c2]] := algC_roots_lemma n2.
  have [w3 [p3 e3 c3]] := algC_roots_lemma n3.
  exists w1, w2, w3. split; first by split.
  move=> posT padd kern Hk nrm0 inv_size0 psi0 winv0 mult0 modes0 bin_of0 multZ0 ninv0 nbins0 X.
  have ok : PipeOk X.
    apply: dft_pipe_ok_lemma => //.
    - exact: conjCK.
    - exact: algC_re_self_lemma.
  split; [|split].
  - move=> cfg a P P2. exact: power_cellshift_invariant.
  - move=> cfg P P' HP. by apply: power_perm_invariant.
  - move=> cfg P. exact: cross_equals_auto.
Qed.
Print Assumptions complex_dft_symmetries.

(* Hermitian symmetry: the DFT of a REAL mesh (conj (f j) = f j in every cell — the painted density contrast) at the
   opposite frequency is the conjugate.  This is why rfftn may store only the half mesh k3 <= N3 / 2. *)
Theorem dft_hermitian :
  forall (R : comRingType) (n1 n2 n3 : nat) (w1 w2 w3 : R),
    w1 ^+ n1.+1 = 1 -> w2 ^+ n2.+1 = 1 -> w3 ^+ n3.+1 = 1 ->
  forall cj : {rmorphism R -> R},
    w1 * cj w1 = 1 -> w2 * cj w2 = 1 -> w3 * cj w3 = 1 ->
  forall f : cellT n1 n2 n3 -> R, (forall j, cj (f j) = f j) ->
  forall k, cj (dft w1 w2 w3 f k) = dft w1 w2 w3 f (- k).
Proof. move=> R n1 n2 n3 w1 w2 w3 H1 H2 H3 cj C1 C2 C3 f fr k. exact: dft_hermitian_lemma. Qed.
Print Assumptions dft_hermitian.

(* hence the raw power |F f k|^2 of a real mesh is an even function of the mode *)
Theorem power_even :
  forall (R : comRingType) (n1 n2 n3 : nat) (w1 w2 w3 : R),
    w1 ^+ n1.+1 = 1 -> w2 ^+ n2.+1 = 1 -> w3 ^+ n3.+1 = 1 ->
  forall cj : {rmorphism R -> R}, involutive cj ->
    w1 * cj w1 = 1 -> w2 * cj w2 = 1 -> w3 * cj w3 = 1 ->
  forall f : cellT n1 n2 n3 -> R, (forall j, cj (f j) = f j) ->
  forall k, dft w1 w2 w3 f (- k) * cj (dft w1 w2 w3 f (- k)) = dft w1 w2 w3 f k * cj (dft w1 w2 w3 f k).
Proof. move=> R n1 n2 n3 w1 w2 w3 H1 H2 H3 cj cjK C1 C2 C3 f fr k. exact: power_even_lemma. Qed.
Print Assumptions power_even.

(* ★ the half mesh with multiplicities IS the full mesh: for every mesh size and every even quantity G (raw power of a real
   mesh times the indicator of any bin that depends on the mode through squared folded frequencies), summing G over all
   n1 n2 n3 modes equals summing over the stored half k3 <= N3 / 2 with multiplicity 1 on the planes k3 = 0 and
   2 k3 = N3 and 2 elsewhere — the multiplicities C08.mult_sites regenerates from bin_kmu / bin_kppi. *)
Theorem halfmesh_sum :
  forall (V : zmodType) (n1 n2 n3 : nat) (G : cellT n1 n2 n3 -> V),
    (forall k, G (- k) = G k) ->
    \sum_(k : cellT n1 n2 n3) G k = \sum_(k : cellT n1 n2 n3 | in_half k) G k *+ hmult k.
Proof. move=> V n1 n2 n3 G HG. exact: halfmesh_sum_lemma. Qed.
Print Assumptions halfmesh_sum.

(* the two together: total raw power of a real mesh over the full mesh = multiplicity-weighted total over the stored half *)
Theorem real_mesh_power_halfmesh :
  forall (R : comRingType) (n1 n2 n3 : nat) (w1 w2 w3 : R),
    w1 ^+ n1.+1 = 1 -> w2 ^+ n2.+1 = 1 -> w3 ^+ n3.+1 = 1 ->
  forall cj : {rmorphism R -> R}, involutive cj ->
    w1 * cj w1 = 1 -> w2 * cj w2 = 1 -> w3 * cj w3 = 1 ->
  forall f : cellT n1 n2 n3 -> R, (forall j, cj (f j) = f j) ->
  forall sel : cellT n1 n2 n3 -> bool, (forall k, sel (- k) = sel k) ->
  let pw k := dft w1 w2 w3 f k * cj (dft w1 w2 w3 f k) in
  \sum_(k : cellT n1 n2 n3 | sel k) pw k = \sum_(k : cellT n1 n2 n3 | in_half k && sel k) pw k *+ hmult k.
Proof.
  move=> R n1 n2 n3 w1 w2 w3 H1 H2 H3 cj cjK C1 C2 C3 f fr sel sele pw.
  rewrite big_mkcond /= (@halfmesh_sum_lemma _ n1 n2 n3 (fun k => if sel k then pw k else 0)).
  - rewrite [RHS]big_mkcond [LHS]big_mkcond /=. apply: eq_bigr => k _.
    by case: (in_half k) => //=; case: (sel k) => //=; rewrite mul0rn.
  - move=> k. rewrite sele /pw. case: (sel k) => //. exact: power_even_lemma.
Qed.
Print Assumptions real_mesh_power_halfmesh.
