(* C13/Model.v — calc_power (abacusnbody/analysis/power_spectrum.py) as a composition over an abstract commutative
   ring with conjugation.  No analysis, no floating point, no proofs here.

   calc_power: get_field (paint, normalize_field) -> rfftn -> (_normalize | shift_field_fft) -> compensation ->
               get_raw_power -> bin_kmu.
   What is abstract (a field of the record [Pipe]):
     the coefficient ring C with conj and re; grid cells, Fourier modes, particles (position and weight), whole-cell
     translations; the deposit K of one particle into one cell (TSC or CIC, plain or with the half-cell offset the
     interlacing uses); F = rfftn; the translation phase phi; the normalisation constants; the k-only interlacing
     phase psi and inverse window winv; the binning (list of stored modes, bin of a mode, multiplicity). *)
From Coq Require Import ZArith List Bool.
Import ListNotations.

Record Pipe := {
  C : Type;
  c0 : C; c1 : C;
  cadd : C -> C -> C; cmul : C -> C -> C; csub : C -> C -> C; copp : C -> C;
  conj : C -> C;
  re : C -> C;                          (* .real *)
  cell : Type; mode : Type; part : Type; shift : Type;
  roll : shift -> cell -> cell;         (* the cell a cell is moved to by a translation *)
  pshift : shift -> part -> part;       (* the particle translated by whole cells, wrapped periodically *)
  K : bool -> part -> cell -> C;        (* weight * kernel(cell - position); true: painted with offset d/2 *)
  F : (cell -> C) -> mode -> C;         (* scipy.fft.rfftn *)
  phi : shift -> mode -> C;             (* exp(-i k.a) *)
  nrm : nat -> C;                       (* field.size / tot_weight, tot_weight = len(pos) (get_field) *)
  inv_size : C;                         (* 1 / field.size (_normalize)  or  0.5 / n1d**3 (shift_field_fft) *)
  psi : mode -> C;                      (* exp(i (kx + ky + kz) d / 2), depends on the mode only *)
  winv : mode -> C;                     (* 1 / (W(kx) W(ky) W(kz)), depends on the mode only *)
  modes : list mode;                    (* the stored half mesh *)
  bin_of : mode -> option nat;          (* (k, mu) bin of a mode, None outside the binned range *)
  mult : mode -> C;                     (* 1 or 2 as a coefficient *)
  multZ : mode -> Z;                    (* 1 or 2 as a count *)
  ninv : Z -> C;                        (* 1 / N_mode *)
  nbins : nat;
}.

Record config := { interlaced : bool; compensated : bool }.

Section PIPE.
  Variable X : Pipe.
  Notation "a + b" := (cadd X a b).
  Notation "a * b" := (cmul X a b).
  Notation "a - b" := (csub X a b).

  (* tsc_parallel / cic_serial: every particle deposits into the mesh, the mesh adds up *)
  Definition paint (off : bool) (P : list (part X)) (c : cell X) : C X :=
    fold_right (fun p acc => K X off p c + acc) (c0 X) P.

  (* normalize_field(field, tot_weight=len(pos)):  field * norm - 1 *)
  Definition delta (off : bool) (P : list (part X)) (c : cell X) : C X :=
    paint off P c * nrm X (length P) - c1 X.

  (* get_field_fft *)
  Definition field_fft (cfg : config) (P : list (part X)) (k : mode X) : C X :=
    let base :=
      if interlaced cfg
      then (F X (delta false P) k + F X (delta true P) k * psi X k) * inv_size X   (* get_interlaced_field_fft *)
      else F X (delta false P) k * inv_size X in
    if compensated cfg then base * winv X k else base.

  (* get_raw_power *)
  Definition raw_power (cfg : config) (P : list (part X)) (P2 : option (list (part X))) (k : mode X) : C X :=
    match P2 with
    | None => conj X (field_fft cfg P k) * field_fft cfg P k               (* np.abs(field_fft) ** 2 *)
    | Some Q => re X (conj X (field_fft cfg P k) * field_fft cfg Q k)      (* (conj(f) * f2).real *)
    end.

  (* bin_kmu, reduced to what matters here: which stored modes go to bin b, with which multiplicity *)
  Definition in_bin (b : nat) (k : mode X) : bool :=
    match bin_of X k with Some b' => Nat.eqb b b' | None => false end.

  Definition wsum (p3d : mode X -> C X) (b : nat) : C X :=
    fold_right (fun k acc => (if in_bin b k then mult X k * p3d k else c0 X) + acc) (c0 X) (modes X).

  Definition n_mode (b : nat) : Z :=
    fold_right (fun k acc => ((if in_bin b k then multZ X k else 0) + acc)%Z) 0%Z (modes X).

  Definition power (cfg : config) (P : list (part X)) (P2 : option (list (part X))) (b : nat) : C X :=
    wsum (raw_power cfg P P2) b * ninv X (n_mode b).

  (* the table calc_power returns: one row (power, N_mode) per bin *)
  Definition calc_power (cfg : config) (P : list (part X)) (P2 : option (list (part X))) : list (C X * Z) :=
    map (fun b => (power cfg P P2 b, n_mode b)) (seq 0 (nbins X)).
End PIPE.
