(* C13/Spec.v — what is assumed of the abstract pieces of Model.v (each a textbook fact about the real ones). *)
From Coq Require Import ZArith List Bool Ring_theory.
From Abacus.C13 Require Import Model.
Import ListNotations.

Record PipeOk (X : Pipe) : Prop := {
  (* C is a commutative ring *)
  ring_ok : ring_theory (c0 X) (c1 X) (cadd X) (cmul X) (csub X) (copp X) eq;
  (* conjugation is a multiplicative involution; the real part of a self-conjugate number is the number *)
  conj_mul : forall a b, conj X (cmul X a b) = cmul X (conj X a) (conj X b);
  conj_invol : forall a, conj X (conj X a) = a;
  re_selfconj : forall w, conj X w = w -> re X w = w;
  (* F (rfftn) is a function of the values of the mesh, and satisfies the shift theorem with a unimodular phase *)
  F_ext : forall f g, (forall c, f c = g c) -> forall k, F X f k = F X g k;
  F_shift : forall a f g, (forall c, g (roll X a c) = f c) -> forall k, F X g k = cmul X (phi X a k) (F X f k);
  phi_unit : forall a k, cmul X (phi X a k) (conj X (phi X a k)) = c1 X;
  (* C06 (cell_shift_rolls): translating a particle by whole cells, with wrap, rolls its deposits — for the plain
     paint and for the paint with the half-cell offset *)
  K_shift : forall off a p c, K X off (pshift X a p) (roll X a c) = K X off p c;
}.

Definition shift_all (X : Pipe) (a : shift X) (P : list (part X)) : list (part X) := map (pshift X a) P.
