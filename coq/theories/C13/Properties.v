(* C13/Properties.v — symmetries of calc_power, proved for the abstract pipeline of Model.v under the hypotheses of
   Spec.v (PipeOk: commutative ring with conjugation; rfftn as a function F with the shift theorem; the C06 fact that
   a whole-cell translation rolls the deposits).  PARTIAL BY NATURE: the FFT is abstract, floating-point rounding and
   the order of reductions (hence the thread count) are not modelled; the tie to the code is the metamorphic
   correspondence run of tools/harness/c13.py on the real calc_power. *)
From Coq Require Import ZArith List Bool Permutation.
From Abacus.C13 Require Import Model Spec Proofs.
Import ListNotations.

(* ★ permuting the particles (of either field) changes nothing *)
Theorem power_perm_invariant : forall X, PipeOk X -> forall cfg P P' P2 P2',
  Permutation P P' -> opt_rel X (@Permutation _) P2 P2' ->
  calc_power X cfg P P2 = calc_power X cfg P' P2'.
Proof. exact table_perm_invariant. Qed.
Print Assumptions power_perm_invariant.

(* ★ translating all particles (of both fields) by whole cells with periodic wrap changes nothing — interlaced or
   not, compensated or not, auto or cross *)
Theorem power_cellshift_invariant : forall X, PipeOk X -> forall cfg a P P2,
  calc_power X cfg (shift_all X a P) (option_map (shift_all X a) P2) = calc_power X cfg P P2.
Proof. exact table_cellshift_invariant. Qed.
Print Assumptions power_cellshift_invariant.

(* ★ passing the same particles as the second field gives the auto power *)
Theorem cross_equals_auto : forall X, PipeOk X -> forall cfg P,
  calc_power X cfg P (Some P) = calc_power X cfg P None.
Proof. exact table_cross_equals_auto. Qed.
Print Assumptions cross_equals_auto.

(* ★ N_mode and the table shape depend on the mesh and the binning only, never on the particles or the options *)
Theorem nmode_shape_independent_of_particles : forall X cfg cfg' P P2 Q Q2,
  map snd (calc_power X cfg P P2) = map snd (calc_power X cfg' Q Q2) /\
  length (calc_power X cfg P P2) = nbins X /\
  map snd (calc_power X cfg P P2) = map (n_mode X) (seq 0 (nbins X)).
Proof. exact nmode_independent. Qed.
Print Assumptions nmode_shape_independent_of_particles.

(* per Fourier mode: a whole-cell translation multiplies the (interlaced / compensated) Fourier field by a unimodular
   phase that depends on the mode and the translation only *)
Theorem field_fft_cellshift_phase : forall X, PipeOk X -> forall cfg a P k,
  field_fft X cfg (shift_all X a P) k = cmul X (phi X a k) (field_fft X cfg P k).
Proof. exact field_fft_shift. Qed.
Print Assumptions field_fft_cellshift_phase.
