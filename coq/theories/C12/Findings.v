(* C12/Findings.v — kernel-checked record of the two defects found in the original AbacusHOD.staging
   (abacusnbody/hod/abacus_hod.py at 57394d2; repairs: /verif/fixes/C12-staging-sort.patch, C12-veldev-fallback.patch).

   [code_orig] is a frozen copy of the column structure the translator (tools/gen/c12.py) extracted from the original
   source: the sort block re-indexes hpos, hvel, hmass, hid, hmultis, hrandoms, hveldev, hsigma3d (and hdeltac, hfenv,
   hshear under their flags) but NOT hc and hrvir, which are filled from the slab files and returned like the others;
   and the 1-D velocity-deviate fallback is np.concatenate((v, v, v)).reshape(-1, 3). *)
From Coq Require Import ZArith Bool String List Permutation Sorted Lia.
From Abacus.Common Require Import Arr.
From Abacus.C12 Require Import Model Spec Lib Ids.
Import ListNotations.
Local Open Scope Z_scope.
Local Open Scope string_scope.

Definition created_orig : list (string * guard) := [
  ("hpos", Always); ("hvel", Always); ("hmass", Always); ("hid", Always); ("hmultis", Always); ("hrandoms", Always);
  ("hveldev", Always); ("hsigma3d", Always); ("hc", Always); ("hrvir", Always);
  ("hdeltac", IfAB); ("hfenv", IfAB); ("hshear", IfShear)
].

Definition permuted_orig : list (string * guard) := [
  ("hpos", Always); ("hvel", Always); ("hmass", Always); ("hid", Always); ("hmultis", Always); ("hrandoms", Always);
  ("hveldev", Always); ("hsigma3d", Always);
  ("hdeltac", IfAB); ("hfenv", IfAB); ("hshear", IfShear)
].

Definition returned_orig : list entry := [
  ("hpos", "hpos", Always); ("hvel", "hvel", Always); ("hmass", "hmass", Always); ("hid", "hid", Always);
  ("hmultis", "hmultis", Always); ("hrandoms", "hrandoms", Always); ("hveldev", "hveldev", Always);
  ("hsigma3d", "hsigma3d", Always); ("hc", "hc", Always); ("hrvir", "hrvir", Always);
  ("hdeltac", "hdeltac", IfAB); ("hfenv", "hfenv", IfAB); ("hshear", "hshear", IfShear)
].

Definition code_orig : layout :=
  mklayout created_orig permuted_orig returned_orig "hid" "hid" (Some "hid") "hveldev" Tile3 "hid" SideLeft.

Definition noflags : flags := mkflags false false false false.

(* 1. all_returned_columns_permuted is false of the original: hc (and hrvir) is returned, was created before the
      sort, and is not permuted — under every flag combination *)
Theorem all_returned_columns_permuted_orig_refuted : exists k v g,
  In (k, v, g) (returned code_orig) /\ (forall f, active f g = true) /\
  In v (names_under noflags (created code_orig)) /\ forall f, ~ In v (names_under f (permuted code_orig)).
Proof.
  exists "hc", "hc", Always. split; [vm_compute; tauto|]. split; [reflexivity|]. split; [vm_compute; tauto|].
  intros [[|] [|] [|] [|]]; vm_compute; intuition discriminate.
Qed.

Theorem hrvir_not_permuted_orig : forall f, ~ In "hrvir" (names_under f (permuted code_orig)).
Proof. intros [[|] [|] [|] [|]]; vm_compute; intuition discriminate. Qed.

(* 2. the statement of staging_rows_aligned is false of the original: two slabs with ids [2] and [1] (decreasing across
      slabs, duplicate-free, 3-component deviate files).  The ids come out sorted, hc and hrvir stay in file order. *)
Definition slabs_21 : list (slab Z) := [(false, [2]); (false, [1])].

Theorem staging_orig_misaligns_hc_hrvir : exists d,
  halo_data world_ids code_orig noflags slabs_21 = Ok d /\
  assoc "hid" d = Some [[1]; [2]] /\ assoc "hmass" d = Some [[1]; [2]] /\
  assoc "hc" d = Some [[2]; [1]] /\ assoc "hrvir" d = Some [[2]; [1]].
Proof. eexists. split; [vm_compute; reflexivity|]. vm_compute. repeat split. Qed.

Theorem staging_rows_aligned_orig_refuted : exists (f : flags) (slabs : list (slab Z)),
  (forall ks, sorting_perm ks (argsort world_ids ks)) /\
  Forall (fun s : slab Z => fst s = false) slabs /\
  NoDup (map (rid world_ids code_orig) (rows slabs)) /\
  ~ exists rows', halo_data world_ids code_orig f slabs = Ok (table_of world_ids code_orig f rows').
Proof.
  exists noflags, slabs_21. split; [exact argsort_ins_sorting|]. split; [repeat constructor|]. split.
  - vm_compute. repeat constructor; cbn; intuition discriminate.
  - intros [rows' H].
    assert (E : halo_data world_ids code_orig noflags slabs_21 =
                Ok [("hpos", [[1; 1; 1]; [2; 2; 2]]); ("hvel", [[1; 1; 1]; [2; 2; 2]]); ("hmass", [[1]; [2]]);
                    ("hid", [[1]; [2]]); ("hmultis", [[1]; [2]]); ("hrandoms", [[1]; [2]]);
                    ("hveldev", [[1; 1; 1]; [2; 2; 2]]); ("hsigma3d", [[1]; [2]]); ("hc", [[2]; [1]]);
                    ("hrvir", [[2]; [1]])]) by (vm_compute; reflexivity).
    rewrite E in H. destruct rows' as [|[b1 x1] [|[b2 x2] [|? ?]]]; vm_compute in H; try discriminate.
    destruct b1, b2; inversion H; subst; discriminate.
Qed.

(* 3. the 1-D fallback of the original mixes halos: with two halos, row 0 gets halo 1's number in its y component *)
Theorem veldev_fallback_orig_refuted : exists v : list Z, expand1d (fb code_orig) v <> replicate3 v.
Proof. exists [1; 2]. vm_compute. discriminate. Qed.

Theorem staging_orig_legacy_deviates_misaligned : exists d,
  halo_data world_ids code_orig noflags [(true, [1; 2])] = Ok d /\
  assoc "hid" d = Some [[1]; [2]] /\ assoc "hveldev" d = Some [[1; 2; 1]; [2; 1; 2]].
Proof. eexists. split; [vm_compute; reflexivity|]. vm_compute. split; reflexivity. Qed.

(* with three halos every halo gets the same vector *)
Example fallback_orig_three : expand1d Tile3 [1; 2; 3] = [[1; 2; 3]; [1; 2; 3]; [1; 2; 3]].
Proof. reflexivity. Qed.
