(* C12/Ids.v — the interpretation used to RUN the model: a record is its halo id, and every stored component is the id
   of the halo it describes (the correspondence harness decodes the implementation's numbers to the same thing).
   np.argsort is the insertion-sort argsort of Lib.v (for duplicate-free ids the sorting permutation is unique). *)
From Coq Require Import ZArith Bool String List.
From Abacus.Common Require Import Arr.
From Abacus.C12 Require Import Model Spec Lib.
Import ListNotations.
Local Open Scope Z_scope.
Local Open Scope string_scope.

Definition vec3 : list string := ["hpos"; "hvel"; "hveldev"].

Definition world_ids : world Z Z :=
  mkworld Z Z (fun c r => if mem c vec3 then [r; r; r] else [r]) (fun r => r) (fun x => x) argsort_ins.

Definition rows_eqb (a b : list (list Z)) : bool :=
  Nat.eqb (length a) (length b) && forallb (fun p => Nat.eqb (length (fst p)) (length (snd p))
                                                   && forallb (fun q => fst q =? snd q)%Z (combine (fst p) (snd p)))
                                         (combine a b).

(* the property predicate on a staged result: every component of every row of every column names the halo whose id is
   on that row, ids increase strictly, every host index points at the recorded id *)
Fixpoint increasingb (l : list Z) : bool :=
  match l with
  | x :: ((y :: _) as t) => (x <? y)%Z && increasingb t
  | _ => true
  end.

Definition aligned (d : list (string * list (list Z))) (phid inds : list Z) : bool :=
  match assoc "hid" d with
  | None => false
  | Some hidcol =>
      let ids := map (fun r => match r with x :: _ => x | [] => (-1)%Z end) hidcol in
      increasingb ids
      && forallb (fun kc => Nat.eqb (length (snd kc)) (length ids)
                            && forallb (fun p => negb (Nat.eqb (length (fst p)) 0) && forallb (Z.eqb (snd p)) (fst p))
                                       (combine (snd kc) ids)) d
      && Nat.eqb (length inds) (length phid)
      && forallb (fun pi => match get ids (snd pi) with Ok h => (h =? fst pi)%Z | _ => false end) (combine phid inds)
  end.
