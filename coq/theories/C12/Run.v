(* C12/Run.v — executable glue for the correspondence check (no theorem depends on it).

   case = (flags (AB, shear, ranks, expvel), slabs [(legacy?, ids in file order)], recorded host ids of the particles
           in file order, the keys of halo_data the implementation returned, sorted).
   result = VL [ VL [column of key_1; ...]; pinds ]  with a column = VL of rows, a row = VL of the halo ids its
   components describe; staging's exceptions map to VRaise. *)
From Coq Require Import ZArith Bool String List.
From Abacus.Common Require Import Arr Corr.
From Abacus.C12 Require Import Model Spec Lib Ids Gen.
Import ListNotations.
Local Open Scope Z_scope.

Definition case := ((bool * bool * bool * bool) * list (bool * list Z) * list Z * list string)%type.

Definition flags_of (t : bool * bool * bool * bool) : flags :=
  let '(a, b, r, e) := t in mkflags a b r e.

Definition run_with (L : layout) (c : case) : val :=
  let '(fl, slabs, phid, keys) := c in
  let f := flags_of fl in
  match halo_data world_ids L f slabs with
  | Ok d =>
      if negb (Nat.eqb (length d) (length keys)) then VNone else
      match mapM (fun k => match assoc k d with Some col => Ok col | None => Raise KeyError end) keys with
      | Ok cols =>
          match pinds world_ids L f slabs phid with
          | Ok inds => VL [VL (map (fun col => VL (map vlistZ col)) cols); vlistZ inds]
          | Oob => VOob
          | Raise e => VRaise e
          end
      | _ => VNone
      end
  | Oob => VOob
  | Raise e => VRaise e
  end.

Definition run : case -> val := run_with code.

(* the property predicate evaluated on the model (used to search for a failing input when a proof breaks) *)
Definition holds_with (L : layout) (c : case) : bool :=
  let '(fl, slabs, phid, keys) := c in
  let f := flags_of fl in
  match halo_data world_ids L f slabs, pinds world_ids L f slabs phid with
  | Ok d, Ok inds => aligned d phid inds
  | _, _ => false
  end.

Definition holds : case -> bool := holds_with code.
