(* C12/Examples.v — non-vacuity of every hypothesis used in Properties.v, and regression values. *)
From Coq Require Import ZArith Bool String List Permutation Sorted Lia.
From Abacus.Common Require Import Arr.
From Abacus.C12 Require Import Model Spec Lib Ids Gen.
Import ListNotations.
Local Open Scope Z_scope.
Local Open Scope string_scope.

(* sorting_perm: the argsort of [30; 10; 20] *)
Example sorting_perm_nonvacuous : sorting_perm [30; 10; 20] [1; 2; 0].
Proof.
  split.
  - change (iota (length [30; 10; 20])) with [0; 1; 2].
    apply Permutation_sym. apply (Permutation_cons_app [1; 2] [] 0). apply Permutation_refl.
  - exists [10; 20; 30]. split; [reflexivity|]. repeat constructor; lia.
Qed.
Example argsort_ins_value : argsort_ins [30; 10; 20] = [1; 2; 0].
Proof. reflexivity. Qed.
Example argsort_ins_interleaved : argsort_ins [1; 4; 7; 2; 5; 8; 3; 6; 9] = [0; 3; 6; 1; 4; 7; 2; 5; 8].
Proof. vm_compute. reflexivity. Qed.

(* the hypothesis on np.argsort of the staging theorems is met by the executable world *)
Example world_ids_argsort_ok : forall ks, sorting_perm ks (argsort world_ids ks).
Proof. exact argsort_ins_sorting. Qed.

(* searchsorted_finds_host: sorted ids containing p *)
Example searchsorted_hyp_nonvacuous : Sorted Z.le [10; 20; 30; 40] /\ In 30 [10; 20; 30; 40].
Proof. split; [repeat constructor; lia|cbn; tauto]. Qed.
Example searchsorted_values :
  map (searchsorted SideLeft [10; 20; 30; 40]) [10; 20; 30; 40; 5; 25; 45] = map Ok [0; 1; 2; 3; 0; 2; 4].
Proof. vm_compute. reflexivity. Qed.
Example searchsorted_empty : searchsorted SideLeft [] 7 = Ok 0.
Proof. vm_compute. reflexivity. Qed.
Example searchsorted_single : searchsorted SideLeft [7] 7 = Ok 0.
Proof. vm_compute. reflexivity. Qed.
Example searchsorted_right_differs : searchsorted SideRight [10; 20; 30; 40] 30 = Ok 3.
Proof. vm_compute. reflexivity. Qed.

(* staging_rows_aligned: decreasing ids across two slabs, interleaved ids across three, 3-component deviate files,
   particles recording loaded ids *)
Definition slabs_dec : list (slab Z) := [(false, [30; 40]); (false, [10; 20])].
Definition slabs_mix : list (slab Z) := [(false, [1; 7; 4]); (true, [8; 2]); (false, [3])].

Example staging_hyps_nonvacuous :
  Forall (fun s : slab Z => fst s = false) slabs_dec /\
  NoDup (map (rid world_ids code) (rows slabs_dec)) /\
  (forall p, In p [30; 30; 40; 10] -> In p (map (rid world_ids code) (rows slabs_dec))).
Proof.
  split; [repeat constructor|]. split.
  - vm_compute. repeat constructor; cbn; intuition discriminate.
  - vm_compute. intuition.
Qed.
Example staging_legacy_hyps_nonvacuous : NoDup (map (rid world_ids code) (rows slabs_mix)).
Proof. vm_compute. repeat constructor; cbn; intuition discriminate. Qed.

(* regression values of the model on the current source *)
Example staging_dec_value :
  option_map (fun d => (assoc "hid" d, assoc "hc" d, assoc "hrvir" d, assoc "hpos" d))
             (match halo_data world_ids code (mkflags false false false false) slabs_dec with Ok d => Some d | _ => None end)
  = Some (Some [[10]; [20]; [30]; [40]], Some [[10]; [20]; [30]; [40]], Some [[10]; [20]; [30]; [40]],
          Some [[10; 10; 10]; [20; 20; 20]; [30; 30; 30]; [40; 40; 40]]).
Proof. vm_compute. reflexivity. Qed.
Example pinds_dec_value :
  pinds world_ids code (mkflags false false false false) slabs_dec [30; 30; 40; 10; 10; 20] = Ok [2; 2; 3; 0; 0; 1].
Proof. vm_compute. reflexivity. Qed.
Example staging_mix_veldev :
  option_map (fun d => (assoc "hid" d, assoc "hveldev" d))
             (match halo_data world_ids code (mkflags true true false true) slabs_mix with Ok d => Some d | _ => None end)
  = Some (Some [[1]; [2]; [3]; [4]; [7]; [8]],
          Some [[1; 1; 1]; [2; 2; 2]; [3; 3; 3]; [4; 4; 4]; [7; 7; 7]; [8; 8; 8]]).
Proof. vm_compute. reflexivity. Qed.
Example flags_add_keys :
  map (fun f => match halo_data world_ids code f slabs_dec with Ok d => length d | _ => O end)
      [mkflags false false false false; mkflags true false false false; mkflags false true false false;
       mkflags true true true true] = [10; 12; 11; 13]%nat.
Proof. vm_compute. reflexivity. Qed.
(* already sorted input: the sort block is skipped and nothing moves *)
Example sorted_input_untouched :
  sort_needed world_ids code [(false, [1; 2]); (false, [3])] = false /\ sort_needed world_ids code slabs_dec = true.
Proof. split; reflexivity. Qed.
(* duplicate ids are outside the quantifier, an id array that cannot be sorted is not: the model raises like the code *)
Example empty_input : halo_data world_ids code (mkflags false false false false) [] =
  Ok (map (fun e => (fst (fst e), [])) (active_entries (mkflags false false false false) (returned code))).
Proof. vm_compute. reflexivity. Qed.
