(* C12/Properties.v — the property theorems.  [code] (C12/Gen.v) is the column structure the translator extracts from
   AbacusHOD.staging / _searchsorted_parallel on every run; the theorems that mention it are about the current source.
   Nothing but statements closed by `exact` and their assumptions. *)
From Coq Require Import ZArith Bool String List Permutation Sorted.
From Abacus.Common Require Import Arr.
From Abacus.C12 Require Import Model Spec Lib Proofs Gen GenFacts.
Import ListNotations.
Local Open Scope Z_scope.

(* (★) Under every flag combination, every array returned in halo_data was filled from the slab files before the sort
   block AND is re-indexed by sortind inside it. *)
Theorem all_returned_columns_permuted : forall f k v g,
  In (k, v, g) (returned code) -> active f g = true ->
  In v (names_under f (created code)) /\ In v (names_under f (permuted code)).
Proof. exact all_returned_columns_permuted_lemma. Qed.
Print Assumptions all_returned_columns_permuted.

(* (★) Generic: if every column of a table is re-indexed by the same sorting permutation sigma of the key column, then
   there is one reordering rows' of the records such that EVERY column is the column of rows' (row i of every column
   describes record rows'[i]); the reads are in bounds; duplicate-free keys come out strictly increasing. *)
Theorem rows_aligned : forall (R : Type) (rows : list R) (key : R -> Z) (sigma : list Z),
  sorting_perm (map key rows) sigma ->
  exists rows', Permutation rows' rows /\
    (forall B (col : R -> B), gather (map col rows) sigma = Ok (map col rows')) /\
    (NoDup (map key rows) -> increasing (map key rows')).
Proof. exact @rows_aligned_lemma. Qed.
Print Assumptions rows_aligned.

(* the hypothesis made about np.argsort is satisfiable: insertion sort on (key, row) pairs is a sorting permutation *)
Theorem insertion_argsort_is_sorting_perm : forall ks, sorting_perm ks (argsort_ins ks).
Proof. exact argsort_ins_sorting. Qed.
Print Assumptions insertion_argsort_is_sorting_perm.

(* (★) The binary search the code calls (numba's np.searchsorted, side as written in _searchsorted_parallel), for every
   length: on non-decreasing ids that contain p it terminates within its fuel, reads in bounds, and returns a row
   holding p. *)
Theorem searchsorted_finds_host : forall (hid : list Z) (p : Z),
  Sorted Z.le hid -> In p hid ->
  exists r, searchsorted (sside code) hid p = Ok r /\ get hid r = Ok p.
Proof. exact searchsorted_finds_host_lemma. Qed.
Print Assumptions searchsorted_finds_host.

(* ... and in general it returns the first row whose id is >= the key (also for keys that are absent) *)
Theorem searchsorted_is_lower_bound : forall (a : list Z) (key : Z),
  Sorted Z.le a -> exists r, searchsorted SideLeft a key = Ok r /\ lower_bound a key r.
Proof. exact searchsorted_lower_bound_lemma. Qed.
Print Assumptions searchsorted_is_lower_bound.

(* the sort test, the argsort, the assertion and the host search all use the id array, with side='left' *)
Theorem code_wiring :
  test_key code = sort_key code /\ haystack code = sort_key code /\ sside code = SideLeft /\
  (assert_key code = None \/ assert_key code = Some (sort_key code)).
Proof. exact code_wiring_lemma. Qed.
Print Assumptions code_wiring.

(* the keys of halo_data are the per-halo quantities the property names, each filled from its own file quantity *)
Theorem returned_keys_and_sources_match_spec : forall f, keys_ok (returned code) g_fills f = true.
Proof. exact keys_ok_lemma. Qed.
Print Assumptions returned_keys_and_sources_match_spec.

(* the 1-D velocity-deviate fallback gives every halo its own number in all three components *)
Theorem veldev_fallback_rowwise : forall (A : Type) (v : list A), expand1d (fb code) v = replicate3 v.
Proof. exact veldev_fallback_rowwise_lemma. Qed.
Print Assumptions veldev_fallback_rowwise.

(* (★) The data flow of staging with the extracted column structure: for every interpretation of the file contents
   (records R, values X, per-array expressions ext), every np.argsort that returns a sorting permutation, every flag
   combination, every number of slabs and every order of duplicate-free ids across and inside the slabs, with
   3-component deviate files: staging returns, without a failed access or assertion, the dictionary of ONE table rows'
   — a reordering of all loaded records — so row i of every returned array is the file's value for record rows'[i];
   the ids increase strictly; and the host index of every particle that records the id of a loaded halo points at the
   row holding that id. *)
Theorem staging_rows_aligned :
  forall (R X : Type) (W : world R X) (f : flags) (slabs : list (slab R)) (phid : list Z),
  (forall ks, sorting_perm ks (argsort W ks)) ->
  Forall (fun s : slab R => fst s = false) slabs ->
  NoDup (map (rid W code) (rows slabs)) ->
  (forall p, In p phid -> In p (map (rid W code) (rows slabs))) ->
  exists rows',
    Permutation rows' (rows slabs) /\
    increasing (map (rid W code) rows') /\
    halo_data W code f slabs = Ok (table_of W code f rows') /\
    exists inds, pinds W code f slabs phid = Ok inds /\
                 Forall2 (fun p i => get (map (rid W code) rows') i = Ok p) phid inds.
Proof. exact staging_rows_aligned_lemma. Qed.
Print Assumptions staging_rows_aligned.

(* the same for every file set, legacy one-deviate-per-halo files included (any mixture) *)
Theorem staging_rows_aligned_legacy :
  forall (R X : Type) (W : world R X) (f : flags) (slabs : list (slab R)) (phid : list Z),
  (forall ks, sorting_perm ks (argsort W ks)) ->
  NoDup (map (rid W code) (rows slabs)) ->
  (forall p, In p phid -> In p (map (rid W code) (rows slabs))) ->
  exists rows',
    Permutation rows' (rows slabs) /\
    increasing (map (rid W code) rows') /\
    halo_data W code f slabs = Ok (table_of W code f rows') /\
    exists inds, pinds W code f slabs phid = Ok inds /\
                 Forall2 (fun p i => get (map (rid W code) rows') i = Ok p) phid inds.
Proof. exact staging_rows_aligned_legacy_lemma. Qed.
Print Assumptions staging_rows_aligned_legacy.
