(* C12/Proofs.v — the data flow of staging keeps every returned column on the row of its halo, provided the column
   sets extracted from the code pass the decidable checks [cols_ok] / [wiring_ok] (and, for legacy files, the 1-D
   fallback is the row-wise one). *)
From Coq Require Import ZArith Bool String List Lia Permutation Sorted.
From Abacus.Common Require Import Arr.
From Abacus.C12 Require Import Model Spec Lib.
Import ListNotations.
Local Open Scope Z_scope.
Local Open Scope res_scope.

Lemma mem_In s l : mem s l = true <-> In s l.
Proof.
  unfold mem. rewrite existsb_exists. split.
  - intros [x [Hx E]]. apply String.eqb_eq in E. subst. exact Hx.
  - intros H. exists s. split; [exact H|apply String.eqb_refl].
Qed.

Section StagingProofs.
  Context {R X : Type}.
  Variable W : world R X.
  Variable L : layout.

  Notation expected := (expected W L).
  Notation rid := (rid W L).

  Lemma slabcol_rowwise c (s : slab R) :
    fb L = Repeat3 \/ fst s = false -> slabcol W L c s = map (expected c) (rows1 s).
  Proof.
    intros H. unfold slabcol, rows1. rewrite map_map. destruct s as [lg l]; cbn [fst snd] in *.
    destruct (lg && String.eqb c (veldev L)) eqn:E.
    - destruct H as [H|H]; [|subst lg; discriminate].
      rewrite H, expand1d_repeat3. unfold replicate3. rewrite map_map. apply map_ext. intros r.
      unfold Spec.expected; cbn [fst snd]. rewrite E. reflexivity.
    - apply map_ext. intros r. unfold Spec.expected; cbn [fst snd]. rewrite E. reflexivity.
  Qed.

  Lemma staged_rowwise c slabs :
    fb L = Repeat3 \/ Forall (fun s : slab R => fst s = false) slabs ->
    staged W L c slabs = map (expected c) (rows slabs).
  Proof.
    intros H. unfold staged, rows. rewrite concat_map, map_map. f_equal. apply map_ext_in. intros s Hs.
    apply slabcol_rowwise. destruct H as [H|H]; [left; exact H|right]. rewrite Forall_forall in H. apply H. exact Hs.
  Qed.

  Lemma keys_rowwise (l : list row) c : keys_of W (map (expected c) l) = map (fun x => akey W (expected c x)) l.
  Proof. unfold keys_of. rewrite map_map. reflexivity. Qed.

  Lemma names_used_weaken (P : string -> bool) f :
    forallb P (names_used L f true) = true -> forall b, forallb P (names_used L f b) = true.
  Proof.
    intros H [|]; [exact H|]. unfold names_used in *. cbn [forallb] in *.
    apply andb_true_iff in H. destruct H as [H1 H]. rewrite H1. cbn [andb].
    cbn [app] in H. cbn [forallb] in H. apply andb_true_iff in H. destruct H as [_ H].
    rewrite forallb_app in H. apply andb_true_iff in H. destruct H as [_ H]. exact H.
  Qed.

  Section Aligned.
    Variable f : flags.
    Variable slabs : list (slab R).
    Hypothesis Hargsort : forall ks, sorting_perm ks (argsort W ks).
    Hypothesis Hfb : fb L = Repeat3 \/ Forall (fun s : slab R => fst s = false) slabs.
    Hypothesis Hwire : wiring_ok L = true.
    Hypothesis Hcols : cols_ok L f = true.

    Lemma wiring_facts :
      test_key L = sort_key L /\ (assert_key L = None \/ assert_key L = Some (sort_key L)) /\
      haystack L = sort_key L /\ sside L = SideLeft.
    Proof.
      pose proof Hwire as Hw. unfold wiring_ok in Hw.
      apply andb_true_iff in Hw. destruct Hw as [Hw H4]. apply andb_true_iff in Hw. destruct Hw as [Hw H3].
      apply andb_true_iff in Hw. destruct Hw as [H1 H2].
      split; [apply String.eqb_eq; exact H1|]. split.
      - destruct (assert_key L) as [k|]; [right|left; reflexivity]. f_equal. apply String.eqb_eq. assumption.
      - split; [apply String.eqb_eq; assumption|]. destruct (sside L); [reflexivity|discriminate].
    Qed.

    (* one table rows' serves every permuted column *)
    Lemma sort_block_table :
      exists rows', Permutation rows' (rows slabs) /\ Sorted Z.le (map rid rows') /\
        forall c, mem c (names_under f (permuted L)) = true ->
                  final_column W L f slabs c = Ok (map (expected c) rows').
    Proof.
      destruct wiring_facts as [Htest _].
      assert (Hkeys : forall c, keys_of W (staged W L c slabs) = map (fun x => akey W (expected c x)) (rows slabs))
        by (intros c; rewrite staged_rowwise by exact Hfb; apply keys_rowwise).
      destruct (sort_needed W L slabs) eqn:Esn.
      - pose proof (Hargsort (keys_of W (staged W L (sort_key L) slabs))) as Hsp.
        rewrite Hkeys in Hsp.
        destruct (sorting_perm_table (rows slabs) rid _ Hsp) as [rows' [_ [HP [HS Hall]]]].
        exists rows'. split; [exact HP|]. split; [exact HS|].
        intros c Hc. unfold final_column. rewrite Esn, Hc. cbn [andb].
        rewrite staged_rowwise by exact Hfb. unfold sortind. rewrite Hkeys. apply Hall.
      - exists (rows slabs). split; [apply Permutation_refl|]. split.
        + unfold sort_needed in Esn. apply negb_false_iff in Esn. rewrite Htest, Hkeys in Esn.
          apply nondecr_Sorted. exact Esn.
        + intros c _. unfold final_column. rewrite Esn. cbn [andb]. rewrite staged_rowwise by exact Hfb. reflexivity.
    Qed.

    Lemma cols_facts :
      forallb (fun c => mem c (names_under f (created L))) (names_used L f true) = true /\
      mem (sort_key L) (names_under f (permuted L)) = true /\
      forall e, In e (active_entries f (returned L)) -> mem (entry_var e) (names_under f (permuted L)) = true.
    Proof.
      pose proof Hcols as Hc. unfold cols_ok in Hc. apply andb_true_iff in Hc. destruct Hc as [H1 H2].
      split; [exact H1|]. cbn [forallb] in H2. apply andb_true_iff in H2. destruct H2 as [H2 H3].
      split; [exact H2|]. intros e He. rewrite forallb_forall in H3. apply H3. apply in_map. exact He.
    Qed.

    Theorem staging_aligned_lemma (phid : list Z) :
      NoDup (map rid (rows slabs)) ->
      (forall p, In p phid -> In p (map rid (rows slabs))) ->
      exists rows',
        Permutation rows' (rows slabs) /\
        increasing (map rid rows') /\
        halo_data W L f slabs = Ok (table_of W L f rows') /\
        exists inds, pinds W L f slabs phid = Ok inds /\
                     Forall2 (fun p i => get (map rid rows') i = Ok p) phid inds.
    Proof.
      intros Hnd Hhost.
      destruct wiring_facts as [Htest [Hassert [Hhay Hside]]].
      destruct cols_facts as [Hcreated [Hkeyperm Hretperm]].
      destruct sort_block_table as [rows' [HP [HS Hcol]]].
      exists rows'. split; [exact HP|]. split.
      { apply sorted_nodup_increasing; [exact HS|].
        eapply Permutation_NoDup; [apply Permutation_map; apply Permutation_sym; exact HP|exact Hnd]. }
      assert (Hkeycol : final_column W L f slabs (sort_key L) = Ok (map (expected (sort_key L)) rows'))
        by (apply Hcol; exact Hkeyperm).
      assert (Hkeys' : keys_of W (map (expected (sort_key L)) rows') = map rid rows') by apply keys_rowwise.
      split.
      - unfold halo_data, names_ok. rewrite (names_used_weaken _ f Hcreated). cbn [negb].
        assert (Hass : match assert_key L with
                       | None => Ok tt
                       | Some k => kc <- final_column W L f slabs k ;;
                                   if nondecr (keys_of W kc) then Ok tt else Raise AssertionError
                       end = Ok tt).
        { destruct Hassert as [-> | ->]; [reflexivity|]. rewrite Hkeycol. cbn [bind]. rewrite Hkeys'.
          apply nondecr_Sorted in HS. rewrite HS. reflexivity. }
        rewrite Hass. cbn [bind]. unfold table_of. apply mapM_ok_map. intros e He.
        rewrite (Hcol _ (Hretperm e He)). reflexivity.
      - unfold pinds. rewrite Hhay.
        assert (Hmem : mem (sort_key L) (names_under f (created L)) = true).
        { unfold names_used in Hcreated. cbn [forallb] in Hcreated. apply andb_true_iff in Hcreated.
          destruct Hcreated as [H _]. rewrite <- Htest. exact H. }
        rewrite Hmem. cbn [negb]. rewrite Hkeycol. cbn [bind]. rewrite Hkeys', Hside.
        unfold searchsorted_parallel. apply mapM_Forall2. intros p Hp.
        apply searchsorted_finds_lemma; [exact HS|].
        eapply Permutation_in; [apply Permutation_map; apply Permutation_sym; exact HP|]. apply Hhost. exact Hp.
    Qed.
  End Aligned.
End StagingProofs.

(* ---- the generic table statement (no staging, no code structure) ------------------------------------------ *)
Lemma rows_aligned_lemma {R} (rows : list R) (key : R -> Z) (sigma : list Z) :
  sorting_perm (map key rows) sigma ->
  exists rows', Permutation rows' rows /\
    (forall B (col : R -> B), gather (map col rows) sigma = Ok (map col rows')) /\
    (NoDup (map key rows) -> increasing (map key rows')).
Proof.
  intros H. destruct (sorting_perm_table rows key sigma H) as [rows' [_ [HP [HS Hall]]]].
  exists rows'. split; [exact HP|]. split; [exact Hall|]. intros Hnd.
  apply sorted_nodup_increasing; [exact HS|].
  eapply Permutation_NoDup; [apply Permutation_map; apply Permutation_sym; exact HP|exact Hnd].
Qed.

(* ---- from the boolean checks to the membership statement --------------------------------------------------- *)
Lemma cols_ok_returned_permuted (L : layout) (f : flags) :
  cols_ok L f = true ->
  forall k v g, In (k, v, g) (returned L) -> active f g = true ->
                In v (names_under f (created L)) /\ In v (names_under f (permuted L)).
Proof.
  intros H k v g Hin Hact. unfold cols_ok in H. apply andb_true_iff in H. destruct H as [H1 H2].
  assert (He : In (k, v, g) (active_entries f (returned L))) by (unfold active_entries; apply filter_In; split; assumption).
  split.
  - unfold names_used in H1. cbn [forallb] in H1. apply andb_true_iff in H1. destruct H1 as [_ H1].
    cbn [app forallb] in H1. apply andb_true_iff in H1. destruct H1 as [_ H1].
    rewrite !forallb_app in H1. apply andb_true_iff in H1. destruct H1 as [_ H1].
    apply andb_true_iff in H1. destruct H1 as [_ H1].
    rewrite forallb_forall in H1. apply mem_In. apply H1. apply (in_map entry_var) in He. exact He.
  - cbn [forallb] in H2. apply andb_true_iff in H2. destruct H2 as [_ H2].
    rewrite forallb_forall in H2. apply mem_In. apply H2. apply (in_map entry_var) in He. exact He.
Qed.
