(* C12/Spec.v — what "every per-halo attribute stays on the row of its halo" means, written independently of the code.

   A table is a list of records [rows]; column c of the table is [map (col c) rows].  The staged result is aligned when
   there is ONE reordering [rows'] of the loaded records such that every returned column is [map (col c) rows'] (row i
   of every column describes record rows'[i]), the ids of rows' increase strictly, and the host index of a particle
   that records id p points at the row whose id is p. *)
From Coq Require Import ZArith Bool String List Permutation Sorted.
From Abacus.Common Require Import Arr.
From Abacus.C12 Require Import Model.
Import ListNotations.
Local Open Scope Z_scope.

(* 0, 1, ..., n-1 *)
Definition iota (n : nat) : list Z := map Z.of_nat (seq 0 n).

(* sigma is what an argsort of ks may return: a permutation of the row numbers that lists the keys in
   non-decreasing order.  (For duplicate-free keys there is exactly one; NumPy's default quicksort is not stable, so
   nothing more is assumed.) *)
Definition sorting_perm (ks sigma : list Z) : Prop :=
  Permutation sigma (iota (length ks)) /\ exists ks', gather ks sigma = Ok ks' /\ Sorted Z.le ks'.

Definition increasing (l : list Z) : Prop := StronglySorted Z.lt l.

(* first index whose element is >= key (np.searchsorted side='left') *)
Definition lower_bound (a : list Z) (key r : Z) : Prop :=
  0 <= r <= len a /\
  (forall i, 0 <= i < r -> nth (Z.to_nat i) a 0 < key) /\
  (forall i, r <= i < len a -> key <= nth (Z.to_nat i) a 0).

(* the legacy 1-D velocity deviates: "using z randoms instead" — the halo's own number in all three components *)
Definition replicate3 {A} (v : list A) : list (list A) := map (fun x => [x; x; x]) v.

(* which quantity of the subsample files each key of halo_data holds (property statement: position, velocity, mass, id,
   multiplicity, random numbers, velocity deviates, dispersion, concentration, radius, secondary ranks; field names from
   prepare_sim / docs) *)
Local Open Scope string_scope.
Definition spec_source : list (string * src) := [
  ("hpos", Field "x_L2com");
  ("hvel", Field "v_L2com");
  ("hmass", Scaled "N" "Mpart");
  ("hid", FieldInt "id");
  ("hmultis", Field "multi_halos");
  ("hrandoms", Field "randoms");
  ("hveldev", VelDev "randoms_exp" "randoms_gaus_vrms");
  ("hsigma3d", Field "sigmav3d_L2com");
  ("hc", Ratio "r98_L2com" "r25_L2com");
  ("hrvir", Field "r98_L2com");
  ("hdeltac", Field "deltac_rank");
  ("hfenv", Field "fenv_rank");
  ("hshear", Field "shear_rank")
].

(* the keys the property names, per flag *)
Definition spec_keys (f : flags) : list string :=
  ["hpos"; "hvel"; "hmass"; "hid"; "hmultis"; "hrandoms"; "hveldev"; "hsigma3d"; "hc"; "hrvir"]
  ++ (if want_AB f then ["hdeltac"; "hfenv"] else []) ++ (if want_shear f then ["hshear"] else []).

Definition src_eqb (a b : src) : bool :=
  match a, b with
  | Field x, Field y | FieldInt x, FieldInt y => String.eqb x y
  | Ratio x1 x2, Ratio y1 y2 | Scaled x1 x2, Scaled y1 y2 | VelDev x1 x2, VelDev y1 y2 =>
      String.eqb x1 y1 && String.eqb x2 y2
  | _, _ => false
  end.

Fixpoint assoc {B} (k : string) (l : list (string * B)) : option B :=
  match l with
  | [] => None
  | (k', b) :: t => if String.eqb k k' then Some b else assoc k t
  end.

Definition all_flags : list flags :=
  flat_map (fun a => flat_map (fun b => flat_map (fun c => map (fun d => mkflags a b c d) [false; true])
                                                [false; true]) [false; true]) [false; true].

(* the decidable condition on the code's column sets under flags f (Gen.v supplies the lists):
   every name the executed statements mention exists, and the sort key and every returned array are permuted *)
Definition cols_ok (L : layout) (f : flags) : bool :=
  forallb (fun c => mem c (names_under f (created L))) (names_used L f true)
  && forallb (fun c => mem c (names_under f (permuted L))) (sort_key L :: map entry_var (active_entries f (returned L))).

(* the sort test, the argsort, the assertion and the host search all look at the same array *)
Definition wiring_ok (L : layout) : bool :=
  String.eqb (test_key L) (sort_key L)
  && match assert_key L with None => true | Some k => String.eqb k (sort_key L) end
  && String.eqb (haystack L) (sort_key L)
  && match sside L with SideLeft => true | SideRight => false end.

(* returned keys and their sources are the ones the property names *)
Definition keys_ok (returned : list entry) (fills : list (string * src)) (f : flags) : bool :=
  let act := active_entries f returned in
  forallb (fun k => existsb (fun e => String.eqb k (fst (fst e))) act) (spec_keys f)
  && forallb (fun e => mem (fst (fst e)) (spec_keys f)
                       && match assoc (entry_var e) fills, assoc (fst (fst e)) spec_source with
                          | Some a, Some b => src_eqb a b
                          | _, _ => false
                          end) act.

(* ---- the loaded table ---------------------------------------------------------------------------------- *)
Section Table.
  Context {R X : Type}.
  Variable W : world R X.
  Variable L : layout.

  (* a loaded record remembers whether its file was a legacy one *)
  Definition row : Type := (bool * R)%type.
  Definition rows1 (s : slab R) : list row := map (pair (fst s)) (snd s).
  (* all loaded records, in file order *)
  Definition rows (slabs : list (slab R)) : list row := concat (map rows1 slabs).

  (* the value array c must show on the row of record x: what the file says about x
     (legacy deviates: the halo's own number three times) *)
  Definition expected (c : string) (x : row) : list X :=
    if fst x && String.eqb c (veldev L) then [dev1 W (snd x); dev1 W (snd x); dev1 W (snd x)] else ext W c (snd x).

  (* the id of a record, as the sort-key array shows it *)
  Definition rid (x : row) : Z := akey W (expected (sort_key L) x).

  (* the dictionary staging should return for the table rows' *)
  Definition table_of (f : flags) (rows' : list row) : list (string * list (list X)) :=
    map (fun e => (fst (fst e), map (expected (entry_var e)) rows')) (active_entries f (returned L)).
End Table.
