(* C12/Lib.v — lemmas about the NumPy pieces of the model: fancy indexing (gather), sorting permutations, the binary
   search of np.searchsorted, the reshape of the 1-D fallback, and a concrete argsort (insertion sort) that satisfies
   the hypothesis made about np.argsort. *)
From Coq Require Import ZArith Bool String List Lia Permutation Sorted.
From Abacus.Common Require Import Arr.
From Abacus.C12 Require Import Model Spec.
Import ListNotations.
Local Open Scope Z_scope.
Local Open Scope res_scope.
Ltac Zify.zify_post_hook ::= Z.to_euclidean_division_equations.

Definition rmap {A B} (g : A -> B) (r : res A) : res B :=
  match r with Ok a => Ok (g a) | Oob => Oob | Raise e => Raise e end.

(* ---- get / gather -------------------------------------------------------------------------------- *)
Lemma get_map {A B} (g : A -> B) (l : list A) i : get (map g l) i = rmap g (get l i).
Proof.
  unfold get, len. rewrite map_length. destruct (norm_idx _ i) as [k|]; [|reflexivity].
  rewrite nth_error_map. destruct (nth_error l k); reflexivity.
Qed.

Lemma gather_map {A B} (g : A -> B) (l : list A) idx : gather (map g l) idx = rmap (map g) (gather l idx).
Proof.
  induction idx as [|i t IH]; [reflexivity|]. cbn [gather]. rewrite get_map, IH.
  destruct (get l i); cbn; [|reflexivity|reflexivity]. destruct (gather l t); reflexivity.
Qed.

Lemma gather_cons_ok {A} (l : list A) i t r :
  gather l (i :: t) = Ok r -> exists a r', get l i = Ok a /\ gather l t = Ok r' /\ r = a :: r'.
Proof.
  cbn [gather]. intros H. apply bind_ok in H. destruct H as [a [Ha H]].
  apply bind_ok in H. destruct H as [r' [Hr H]]. inversion H; subst. eauto.
Qed.

Lemma gather_length {A} (l : list A) idx r : gather l idx = Ok r -> length r = length idx.
Proof.
  revert r; induction idx as [|i t IH]; intros r H.
  - inversion H; reflexivity.
  - apply gather_cons_ok in H. destruct H as [a [r' [_ [Hr ->]]]]. cbn. f_equal. apply IH. exact Hr.
Qed.

Lemma gather_perm {A} (l : list A) s1 s2 :
  Permutation s1 s2 -> forall r1, gather l s1 = Ok r1 -> exists r2, gather l s2 = Ok r2 /\ Permutation r1 r2.
Proof.
  induction 1 as [|x s1 s2 HP IH|x y s|s1 s2 s3 HP1 IH1 HP2 IH2]; intros r1 H.
  - exists r1. split; [exact H|]. apply Permutation_refl.
  - apply gather_cons_ok in H. destruct H as [a [r' [Ha [Hr ->]]]].
    destruct (IH _ Hr) as [r2 [H2 P2]]. exists (a :: r2). split; [|apply perm_skip; exact P2].
    cbn [gather]. rewrite Ha, H2. reflexivity.
  - apply gather_cons_ok in H. destruct H as [a [r' [Ha [Hr ->]]]].
    apply gather_cons_ok in Hr. destruct Hr as [b [r'' [Hb [Hr ->]]]].
    exists (b :: a :: r''). split; [|apply perm_swap]. cbn [gather]. rewrite Hb, Ha, Hr. reflexivity.
  - destruct (IH1 _ H) as [r2 [H2 P2]]. destruct (IH2 _ H2) as [r3 [H3 P3]].
    exists r3. split; [exact H3|]. eapply Permutation_trans; eassumption.
Qed.

Lemma get_app_mid {A} (pre : list A) a l : get (pre ++ a :: l) (Z.of_nat (length pre)) = Ok a.
Proof.
  rewrite (get_ok_nth _ _ a).
  - rewrite Nat2Z.id, app_nth2 by lia. rewrite Nat.sub_diag. reflexivity.
  - unfold len. rewrite app_length. cbn [length]. lia.
Qed.

Lemma gather_iota_gen {A} (l pre : list A) :
  gather (pre ++ l) (map Z.of_nat (seq (length pre) (length l))) = Ok l.
Proof.
  revert pre; induction l as [|a l IH]; intros pre; [reflexivity|].
  cbn [length seq map gather]. rewrite get_app_mid. cbn [bind].
  specialize (IH (pre ++ [a])). rewrite <- app_assoc in IH. cbn [app] in IH.
  rewrite app_length in IH. cbn [length] in IH. rewrite Nat.add_1_r in IH. rewrite IH. reflexivity.
Qed.

Lemma gather_iota {A} (l : list A) : gather l (iota (length l)) = Ok l.
Proof. exact (gather_iota_gen l []). Qed.

(* ---- a sorting permutation reorders a whole table at once ------------------------------------------ *)
Lemma sorting_perm_table {R} (rows : list R) (key : R -> Z) sigma :
  sorting_perm (map key rows) sigma ->
  exists rows', gather rows sigma = Ok rows' /\ Permutation rows' rows /\ Sorted Z.le (map key rows') /\
                forall B (g : R -> B), gather (map g rows) sigma = Ok (map g rows').
Proof.
  intros [HP [ks' [Hg Hs]]]. rewrite gather_map in Hg.
  destruct (gather rows sigma) as [rows'| |e] eqn:E; cbn in Hg; try discriminate.
  inversion Hg; subst ks'. exists rows'. split; [reflexivity|]. split; [|split; [exact Hs|]].
  - rewrite map_length in HP. destruct (gather_perm rows _ _ HP _ E) as [r2 [H2 P2]].
    rewrite gather_iota in H2. inversion H2; subst. exact P2.
  - intros B g. rewrite gather_map, E. reflexivity.
Qed.

Lemma sorted_nodup_increasing l : Sorted Z.le l -> NoDup l -> increasing l.
Proof.
  intros Hs Hn. apply Sorted_StronglySorted in Hs; [|intros x y z; apply Z.le_trans].
  unfold increasing. induction Hs as [|a l Hs IH Hall]; [constructor|].
  inversion Hn as [|? ? Hnotin Hn']; subst. constructor; [apply IH; exact Hn'|].
  rewrite Forall_forall in *. intros x Hx. specialize (Hall x Hx).
  assert (a <> x) by (intros ->; contradiction). lia.
Qed.

Lemma nondecr_Sorted l : nondecr l = true <-> Sorted Z.le l.
Proof.
  induction l as [|x [|y t] IH].
  - split; [constructor|reflexivity].
  - split; [repeat constructor|reflexivity].
  - change (nondecr (x :: y :: t)) with ((x <=? y) && nondecr (y :: t)). rewrite andb_true_iff, IH. split.
    + intros [H1 H2]. constructor; [exact H2|]. constructor. lia.
    + intros H. inversion H as [|? ? H2 H1]; subst. inversion H1; subst. split; [lia|exact H2].
Qed.

(* ---- np.searchsorted --------------------------------------------------------------------------------- *)
Definition zn (a : list Z) (i : Z) : Z := nth (Z.to_nat i) a 0.

Lemma StronglySorted_nth a : StronglySorted Z.le a ->
  forall i j, (i <= j < length a)%nat -> nth i a 0 <= nth j a 0.
Proof.
  induction 1 as [|x l Hs IH Hall]; intros i j Hij; [cbn in Hij; lia|].
  destruct i as [|i], j as [|j]; cbn [nth]; cbn [length] in Hij; try lia.
  - rewrite Forall_forall in Hall. apply Hall. apply nth_In. lia.
  - apply IH. lia.
Qed.

Lemma sorted_zn a : Sorted Z.le a -> forall i j, 0 <= i <= j -> j < len a -> zn a i <= zn a j.
Proof.
  intros Hs i j Hij Hj. apply Sorted_StronglySorted in Hs; [|intros x y z; apply Z.le_trans].
  unfold zn. apply StronglySorted_nth; [exact Hs|]. unfold len in Hj. lia.
Qed.

Lemma ss_cmp_down sd x y key : x <= y -> ss_cmp sd y key = true -> ss_cmp sd x key = true.
Proof. destruct sd; cbn; intros; lia. Qed.

Lemma ss_cmp_up sd x y key : x <= y -> ss_cmp sd x key = false -> ss_cmp sd y key = false.
Proof. destruct sd; cbn; intros; lia. Qed.

Definition ss_inv (sd : side) (a : list Z) (key : Z) (st : Z * Z) : Prop :=
  0 <= fst st <= snd st /\ snd st <= len a /\
  (forall i, 0 <= i < fst st -> ss_cmp sd (zn a i) key = true) /\
  (forall i, snd st <= i < len a -> ss_cmp sd (zn a i) key = false).

Lemma ss_loop sd a key : Sorted Z.le a ->
  forall fuel st, ss_inv sd a key st -> snd st - fst st < Z.of_nat fuel ->
  exists r, while_fuel fuel (fun st => fst st <? snd st) (ss_step sd a key) st = Ok (r, r) /\ ss_inv sd a key (r, r).
Proof.
  intros Hs. induction fuel as [|fuel IH]; intros [lo hi] Hinv Hfuel.
  - destruct Hinv as [H1 _]. cbn [fst snd] in *. lia.
  - cbn [while_fuel fst snd]. destruct (lo <? hi) eqn:Elt.
    + destruct Hinv as [H1 [H2 [H3 H4]]]. cbn [fst snd] in *.
      unfold ss_step. cbn [fst snd]. rewrite Z.shiftr_div_pow2 by lia. change (2 ^ 1) with 2.
      set (mid := lo + (hi - lo) / 2).
      assert (Hmid : lo <= mid < hi) by (subst mid; lia).
      rewrite (get_ok_nth a mid 0) by lia. cbn [bind]. fold (zn a mid).
      destruct (ss_cmp sd (zn a mid) key) eqn:Ec; cbn [bind].
      * apply IH; [|cbn [fst snd]; lia]. unfold ss_inv; cbn [fst snd]. split; [lia|]. split; [lia|]. split.
        -- intros i Hi. apply (ss_cmp_down sd _ (zn a mid)); [|exact Ec]. apply sorted_zn; [exact Hs|lia|lia].
        -- intros i Hi. apply H4. lia.
      * apply IH; [|cbn [fst snd]; lia]. unfold ss_inv; cbn [fst snd]. split; [lia|]. split; [lia|]. split.
        -- intros i Hi. apply H3. lia.
        -- intros i Hi. apply (ss_cmp_up sd (zn a mid)); [|exact Ec]. apply sorted_zn; [exact Hs|lia|lia].
    + assert (lo = hi) by (destruct Hinv as [H1 _]; cbn [fst snd] in H1; lia). subst hi.
      exists lo. split; [reflexivity|exact Hinv].
Qed.

Lemma searchsorted_inv sd a key : Sorted Z.le a ->
  exists r, searchsorted sd a key = Ok r /\ ss_inv sd a key (r, r).
Proof.
  intros Hs. unfold searchsorted.
  destruct (ss_loop sd a key Hs (S (length a)) (0, len a)) as [r [E Hinv]].
  - unfold ss_inv; cbn [fst snd]. pose proof (len_nonneg a). split; [lia|]. split; [lia|]. split; intros i Hi; lia.
  - cbn [fst snd]. unfold len. lia.
  - exists r. rewrite E. cbn [bind fst]. split; [reflexivity|exact Hinv].
Qed.

Lemma searchsorted_lower_bound_lemma a key : Sorted Z.le a ->
  exists r, searchsorted SideLeft a key = Ok r /\ lower_bound a key r.
Proof.
  intros Hs. destruct (searchsorted_inv SideLeft a key Hs) as [r [E [H1 [H2 [H3 H4]]]]]. cbn [fst snd] in *.
  exists r. split; [exact E|]. unfold lower_bound. split; [lia|]. split.
  - intros i Hi. specialize (H3 i Hi). cbn in H3. unfold zn in H3. lia.
  - intros i Hi. specialize (H4 i Hi). cbn in H4. unfold zn in H4. lia.
Qed.

Lemma searchsorted_finds_lemma a p : Sorted Z.le a -> In p a ->
  exists r, searchsorted SideLeft a p = Ok r /\ get a r = Ok p.
Proof.
  intros Hs Hin. destruct (searchsorted_lower_bound_lemma a p Hs) as [r [E [H1 [H3 H4]]]].
  exists r. split; [exact E|].
  destruct (In_nth a p 0 Hin) as [n [Hn Hp]].
  assert (Hj : r <= Z.of_nat n).
  { destruct (Z_lt_ge_dec (Z.of_nat n) r) as [Hlt|]; [|lia].
    specialize (H3 (Z.of_nat n)). rewrite Nat2Z.id, Hp in H3. lia. }
  assert (Hr : r < len a) by (unfold len; lia).
  rewrite (get_ok_nth a r 0) by lia. f_equal.
  pose proof (H4 r ltac:(lia)) as Hge.
  pose proof (sorted_zn a Hs r (Z.of_nat n) ltac:(lia) ltac:(unfold len; lia)) as Hle.
  unfold zn in Hle. rewrite Nat2Z.id, Hp in Hle. lia.
Qed.

Lemma mapM_Forall2 {A B} (g : A -> res B) (Pr : A -> B -> Prop) l :
  (forall a, In a l -> exists b, g a = Ok b /\ Pr a b) -> exists r, mapM g l = Ok r /\ Forall2 Pr l r.
Proof.
  induction l as [|a l IH]; intros H.
  - exists []. split; [reflexivity|constructor].
  - destruct (H a (or_introl eq_refl)) as [b [Eb Pb]].
    destruct IH as [r [Er Fr]]; [intros x Hx; apply H; right; exact Hx|].
    exists (b :: r). cbn [mapM]. rewrite Eb, Er. split; [reflexivity|constructor; assumption].
Qed.

Lemma mapM_ok_map {A B} (g : A -> res B) (h : A -> B) l :
  (forall a, In a l -> g a = Ok (h a)) -> mapM g l = Ok (map h l).
Proof.
  induction l as [|a l IH]; intros H; [reflexivity|].
  cbn [mapM map]. rewrite (H a (or_introl eq_refl)), IH; [reflexivity|]. intros x Hx; apply H; right; exact Hx.
Qed.

(* ---- the 1-D fallback ---------------------------------------------------------------------------------- *)
Lemma expand1d_repeat3 {A} (v : list A) : expand1d Repeat3 v = replicate3 v.
Proof. unfold expand1d, replicate3. induction v as [|x v IH]; [reflexivity|]. cbn [flat_map app chunks3 map]. f_equal. exact IH. Qed.

(* ---- a concrete argsort: insertion sort of (key, row) pairs ------------------------------------------ *)
Fixpoint ins (x : Z * Z) (l : list (Z * Z)) : list (Z * Z) :=
  match l with
  | [] => [x]
  | y :: t => if fst x <=? fst y then x :: l else y :: ins x t
  end.

Definition isort (l : list (Z * Z)) : list (Z * Z) := fold_right ins [] l.

Definition argsort_ins (ks : list Z) : list Z := map snd (isort (combine ks (iota (length ks)))).

Lemma ins_perm x l : Permutation (ins x l) (x :: l).
Proof.
  induction l as [|y t IH]; [apply Permutation_refl|]. cbn [ins]. destruct (fst x <=? fst y).
  - apply Permutation_refl.
  - eapply Permutation_trans; [apply perm_skip; exact IH|apply perm_swap].
Qed.

Lemma isort_perm l : Permutation (isort l) l.
Proof.
  induction l as [|x l IH]; [apply Permutation_refl|]. cbn [isort fold_right].
  eapply Permutation_trans; [apply ins_perm|apply perm_skip; exact IH].
Qed.

Lemma ins_sorted x l : Sorted Z.le (map fst l) -> Sorted Z.le (map fst (ins x l)).
Proof.
  induction l as [|y t IH]; intros Hs; [repeat constructor|]. cbn [ins].
  destruct (fst x <=? fst y) eqn:E.
  - cbn [map]. constructor; [exact Hs|]. constructor. lia.
  - cbn [map] in *. inversion Hs as [|? ? Hs' Hhd]; subst. constructor; [apply IH; exact Hs'|].
    destruct t as [|z t]; cbn [ins map].
    + constructor. lia.
    + destruct (fst x <=? fst z); cbn [map]; constructor; [lia|]. inversion Hhd; subst. assumption.
Qed.

Lemma isort_sorted l : Sorted Z.le (map fst (isort l)).
Proof. induction l as [|x l IH]; [constructor|]. cbn [isort fold_right]. apply ins_sorted. exact IH. Qed.

Lemma map_snd_combine_eq {A B} (l1 : list A) (l2 : list B) : length l1 = length l2 -> map snd (combine l1 l2) = l2.
Proof.
  revert l2; induction l1 as [|a l1 IH]; intros [|b l2] H; cbn in *; try discriminate; try reflexivity.
  f_equal. apply IH. lia.
Qed.

Lemma combine_iota_get (ks pre : list Z) :
  Forall (fun p => get (pre ++ ks) (snd p) = Ok (fst p)) (combine ks (map Z.of_nat (seq (length pre) (length ks)))).
Proof.
  revert pre; induction ks as [|k ks IH]; intros pre; [constructor|].
  cbn [length seq map combine]. constructor.
  - cbn [fst snd]. apply get_app_mid.
  - specialize (IH (pre ++ [k])). rewrite <- app_assoc in IH. cbn [app] in IH.
    rewrite app_length in IH. cbn [length] in IH. rewrite Nat.add_1_r in IH. exact IH.
Qed.

Lemma gather_pairs (ks : list Z) l :
  Forall (fun p => get ks (snd p) = Ok (fst p)) l -> gather ks (map snd l) = Ok (map fst l).
Proof.
  induction 1 as [|p l Hp _ IH]; [reflexivity|]. cbn [map gather]. rewrite Hp, IH. reflexivity.
Qed.

Lemma argsort_ins_sorting ks : sorting_perm ks (argsort_ins ks).
Proof.
  unfold sorting_perm, argsort_ins. set (pairs := combine ks (iota (length ks))).
  assert (Hlen : length ks = length (iota (length ks))) by (unfold iota; rewrite map_length, seq_length; reflexivity).
  split.
  - replace (iota (length ks)) with (map snd pairs) by (apply map_snd_combine_eq; exact Hlen).
    apply Permutation_map. apply isort_perm.
  - exists (map fst (isort pairs)). split; [|apply isort_sorted].
    apply gather_pairs. eapply Permutation_Forall; [apply Permutation_sym; apply isort_perm|].
    exact (combine_iota_get ks []).
Qed.
