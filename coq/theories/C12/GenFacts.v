(* C12/GenFacts.v — the decidable checks evaluated on the column structure extracted from the current source
   (C12/Gen.v), and the instantiation of the generic theorems of Proofs.v with it.  The flag space is finite (16
   combinations): each check is computed for every one of them. *)
From Coq Require Import ZArith Bool String List Permutation Sorted.
From Abacus.Common Require Import Arr.
From Abacus.C12 Require Import Model Spec Lib Proofs Gen.
Import ListNotations.
Local Open Scope Z_scope.

Lemma cols_ok_all : forall f, cols_ok code f = true.
Proof. intros [[|] [|] [|] [|]]; vm_compute; reflexivity. Qed.

Lemma wiring_ok_code : wiring_ok code = true.
Proof. vm_compute; reflexivity. Qed.

Lemma keys_ok_lemma : forall f, keys_ok (returned code) g_fills f = true.
Proof. intros [[|] [|] [|] [|]]; vm_compute; reflexivity. Qed.

Lemma fb_code : fb code = Repeat3.
Proof. reflexivity. Qed.

Lemma all_returned_columns_permuted_lemma : forall f k v g,
  In (k, v, g) (returned code) -> active f g = true ->
  In v (names_under f (created code)) /\ In v (names_under f (permuted code)).
Proof. intros f. apply cols_ok_returned_permuted. apply cols_ok_all. Qed.

Lemma code_wiring_lemma :
  test_key code = sort_key code /\ haystack code = sort_key code /\ sside code = SideLeft /\
  (assert_key code = None \/ assert_key code = Some (sort_key code)).
Proof.
  destruct (wiring_facts code wiring_ok_code) as [H1 [H2 [H3 H4]]]. repeat split; assumption.
Qed.

Lemma searchsorted_finds_host_lemma : forall (hid : list Z) (p : Z),
  Sorted Z.le hid -> In p hid ->
  exists r, searchsorted (sside code) hid p = Ok r /\ get hid r = Ok p.
Proof.
  destruct code_wiring_lemma as [_ [_ [-> _]]]. exact searchsorted_finds_lemma.
Qed.

Lemma veldev_fallback_rowwise_lemma : forall (A : Type) (v : list A), expand1d (fb code) v = replicate3 v.
Proof. intros A v. rewrite fb_code. apply expand1d_repeat3. Qed.

Lemma staging_rows_aligned_lemma :
  forall (R X : Type) (W : world R X) (f : flags) (slabs : list (slab R)) (phid : list Z),
  (forall ks, sorting_perm ks (argsort W ks)) ->
  Forall (fun s : slab R => fst s = false) slabs ->
  NoDup (map (rid W code) (rows slabs)) ->
  (forall p, In p phid -> In p (map (rid W code) (rows slabs))) ->
  exists rows',
    Permutation rows' (rows slabs) /\
    increasing (map (rid W code) rows') /\
    halo_data W code f slabs = Ok (table_of W code f rows') /\
    exists inds, pinds W code f slabs phid = Ok inds /\
                 Forall2 (fun p i => get (map (rid W code) rows') i = Ok p) phid inds.
Proof.
  intros R X W f slabs phid Hsort Hnl Hnd Hhost.
  apply staging_aligned_lemma; try assumption.
  - right; exact Hnl.
  - exact wiring_ok_code.
  - apply cols_ok_all.
Qed.

Lemma staging_rows_aligned_legacy_lemma :
  forall (R X : Type) (W : world R X) (f : flags) (slabs : list (slab R)) (phid : list Z),
  (forall ks, sorting_perm ks (argsort W ks)) ->
  NoDup (map (rid W code) (rows slabs)) ->
  (forall p, In p phid -> In p (map (rid W code) (rows slabs))) ->
  exists rows',
    Permutation rows' (rows slabs) /\
    increasing (map (rid W code) rows') /\
    halo_data W code f slabs = Ok (table_of W code f rows') /\
    exists inds, pinds W code f slabs phid = Ok inds /\
                 Forall2 (fun p i => get (map (rid W code) rows') i = Ok p) phid inds.
Proof.
  intros R X W f slabs phid Hsort Hnd Hhost.
  apply staging_aligned_lemma; try assumption.
  - left; exact fb_code.
  - exact wiring_ok_code.
  - apply cols_ok_all.
Qed.
