(* C12/Model.v — executable model of the data flow of AbacusHOD.staging (abacusnbody/hod/abacus_hod.py) and of
   _searchsorted_parallel.  No proofs here.

   What staging does with the per-halo data, statement by statement:
     for each slab file:   X[ticker : ticker + n] = <expression over the slab's records>      (every staged array X)
     if not np.all(K[:-1] <= K[1:]):   sortind = np.argsort(K');  X = X[sortind]  for the arrays X the block names
     assert np.all(K''[:-1] <= K''[1:])
     halo_data = { key : X, ... };   pinds = _searchsorted_parallel(H, P)
   WHICH arrays are filled, permuted and returned, under which option flag, which arrays play K, K', K'', H, P, the
   side of np.searchsorted and the shape of the 1-D velocity-deviate fallback are not written here: they are
   parameters of the model, and C12/Gen.v — regenerated from the source on every run — supplies them.

   Values are not interpreted: a staged value is a list of components of an abstract type X (3 for positions,
   velocities and velocity deviates, 1 for scalars); [ext c r] is the value the slab loop computes for array c from
   record r (field, ratio of fields, field * particle mass, ...).  np.argsort is a parameter. *)
From Coq Require Import ZArith Bool String List.
From Abacus.Common Require Import Arr.
Import ListNotations.
Local Open Scope Z_scope.
Local Open Scope res_scope.

(* ---- the vocabulary of the generated data ---------------------------------------------------- *)
Inductive guard := Always | IfAB | IfShear | IfRanks | IfNotRanks.
Inductive src :=
| Field (f : string)            (* table['f'] *)
| FieldInt (f : string)         (* table['f'].astype(int) *)
| Ratio (a b : string)          (* table['a'] / table['b'] *)
| Scaled (f p : string)         (* table['f'] * params['p'] *)
| VelDev (e g : string).        (* table['e'] if want_expvel else table['g'], then the 1-D fallback *)
Inductive fallback := Tile3 | Repeat3.
Inductive side := SideLeft | SideRight.

Record flags := mkflags { want_AB : bool; want_shear : bool; want_ranks : bool; want_expvel : bool }.

Definition active (f : flags) (g : guard) : bool :=
  match g with
  | Always => true
  | IfAB => want_AB f
  | IfShear => want_shear f
  | IfRanks => want_ranks f
  | IfNotRanks => negb (want_ranks f)
  end.

Definition names_under (f : flags) (l : list (string * guard)) : list string :=
  map fst (filter (fun p => active f (snd p)) l).

Definition mem (s : string) (l : list string) : bool := existsb (String.eqb s) l.

Definition entry := (string * string * guard)%type.          (* dict key, array name, flag *)
Definition entry_var (e : entry) : string := snd (fst e).
Definition active_entries (f : flags) (l : list entry) : list entry := filter (fun e => active f (snd e)) l.

(* ---- NumPy pieces ----------------------------------------------------------------------------- *)
(* col[idx] with an integer index array: every read is checked *)
Fixpoint gather {A} (col : list A) (idx : list Z) : res (list A) :=
  match idx with
  | [] => Ok []
  | i :: t => a <- get col i ;; r <- gather col t ;; Ok (a :: r)
  end.

Fixpoint mapM {A B} (g : A -> res B) (l : list A) : res (list B) :=
  match l with
  | [] => Ok []
  | a :: t => b <- g a ;; r <- mapM g t ;; Ok (b :: r)
  end.

(* np.all(l[:-1] <= l[1:]) *)
Fixpoint nondecr (l : list Z) : bool :=
  match l with
  | x :: ((y :: _) as t) => (x <=? y) && nondecr t
  | _ => true
  end.

(* w.reshape(-1, 3) of a flat array whose length is a multiple of 3 *)
Fixpoint chunks3 {A} (l : list A) : list (list A) :=
  match l with
  | a :: b :: c :: t => [a; b; c] :: chunks3 t
  | _ => []
  end.

(* the two shapes of the fallback the generator recognises:
     Tile3    np.concatenate((v, v, v)).reshape(-1, 3)
     Repeat3  np.repeat(v, 3).reshape(-1, 3)   (= np.stack((v, v, v), axis=1), ...) *)
Definition expand1d {A} (k : fallback) (v : list A) : list (list A) :=
  match k with
  | Tile3 => chunks3 (v ++ v ++ v)
  | Repeat3 => chunks3 (flat_map (fun x => [x; x; x]) v)
  end.

(* numba's np.searchsorted(a, key) for a scalar key (numba/np/arraymath.py, _searchsorted):
     while min_idx < max_idx:
         mid_idx = min_idx + ((max_idx - min_idx) >> 1)
         if cmp(a[mid_idx], key): min_idx = mid_idx + 1   else: max_idx = mid_idx
   cmp = `<` for side='left', `<=` for side='right'. *)
Definition ss_cmp (sd : side) (a key : Z) : bool :=
  match sd with SideLeft => a <? key | SideRight => a <=? key end.

Definition ss_step (sd : side) (a : list Z) (key : Z) (st : Z * Z) : res (Z * Z) :=
  let mid := fst st + Z.shiftr (snd st - fst st) 1 in
  v <- get a mid ;;
  if ss_cmp sd v key then Ok (mid + 1, snd st) else Ok (fst st, mid).

Definition searchsorted (sd : side) (a : list Z) (key : Z) : res Z :=
  st <- while_fuel (S (List.length a)) (fun st => fst st <? snd st) (ss_step sd a key) (0, len a) ;;
  Ok (fst st).

(* _searchsorted_parallel(a, b): res[i] = np.searchsorted(a, b[i]) for i in prange(len(b)); the iterations are
   independent (each writes its own cell), so the order is irrelevant *)
Definition searchsorted_parallel (sd : side) (a b : list Z) : res (list Z) := mapM (searchsorted sd a) b.

(* ---- staging ---------------------------------------------------------------------------------- *)
(* the structure of the code, as Gen.v extracts it *)
Record layout := mklayout {
  created : list (string * guard);        (* per-halo arrays filled in the slab loop *)
  permuted : list (string * guard);       (* arrays re-indexed by sortind in the sort block *)
  returned : list entry;                  (* halo_data *)
  test_key : string;                      (* if not np.all(K[:-1] <= K[1:]) *)
  sort_key : string;                      (* sortind = np.argsort(K') *)
  assert_key : option string;             (* assert np.all(K''[:-1] <= K''[1:]) *)
  veldev : string;                        (* the array holding the velocity deviates *)
  fb : fallback;                          (* shape of the 1-D fallback *)
  haystack : string;                      (* pinds = _searchsorted_parallel(haystack, needles) *)
  sside : side                            (* side of np.searchsorted *)
}.

(* what is not interpreted *)
Record world (R X : Type) := mkworld {
  ext : string -> R -> list X;            (* value of staged array c computed from record r *)
  dev1 : R -> X;                          (* the single velocity deviate of a legacy record *)
  xkey : X -> Z;                          (* the integer an id-valued component carries *)
  argsort : list Z -> list Z              (* np.argsort *)
}.
Arguments ext {R X}. Arguments dev1 {R X}. Arguments xkey {R X}. Arguments argsort {R X}.

(* a slab = (legacy?, records): legacy files store one velocity deviate per halo *)
Definition slab (R : Type) := (bool * list R)%type.

Section Staging.
  Context {R X : Type}.
  Variable W : world R X.
  Variable L : layout.

  Definition akey (a : list X) : Z := match a with x :: _ => xkey W x | [] => 0 end.

  (* what the slab loop writes into array c for one slab *)
  Definition slabcol (c : string) (s : slab R) : list (list X) :=
    if fst s && String.eqb c (veldev L) then expand1d (fb L) (map (dev1 W) (snd s)) else map (ext W c) (snd s).

  (* X[ticker : ticker + n] = ... over all slabs, ticker += n: the concatenation *)
  Definition staged (c : string) (slabs : list (slab R)) : list (list X) := concat (map (slabcol c) slabs).

  Definition keys_of (col : list (list X)) : list Z := map akey col.

  Definition sort_needed (slabs : list (slab R)) : bool := negb (nondecr (keys_of (staged (test_key L) slabs))).
  Definition sortind (slabs : list (slab R)) : list Z := argsort W (keys_of (staged (sort_key L) slabs)).

  (* array c after the sort block *)
  Definition final_column (f : flags) (slabs : list (slab R)) (c : string) : res (list (list X)) :=
    if sort_needed slabs && mem c (names_under f (permuted L))
    then gather (staged c slabs) (sortind slabs)
    else Ok (staged c slabs).

  (* names the executed statements mention: each must exist under the flags (Python: NameError otherwise) *)
  Definition names_used (f : flags) (sorting : bool) : list string :=
    test_key L :: (if sorting then sort_key L :: names_under f (permuted L) else [])
      ++ (match assert_key L with Some k => [k] | None => [] end)
      ++ map entry_var (active_entries f (returned L)).

  Definition names_ok (f : flags) (slabs : list (slab R)) : bool :=
    forallb (fun c => mem c (names_under f (created L))) (names_used f (sort_needed slabs)).

  Definition halo_data (f : flags) (slabs : list (slab R)) : res (list (string * list (list X))) :=
    if negb (names_ok f slabs) then Raise OtherError else
    _ <- match assert_key L with
         | None => Ok tt
         | Some k => kc <- final_column f slabs k ;;
                     if nondecr (keys_of kc) then Ok tt else Raise AssertionError
         end ;;
    mapM (fun e => col <- final_column f slabs (entry_var e) ;; Ok (fst (fst e), col)) (active_entries f (returned L)).

  (* pinds = _searchsorted_parallel(H, P): H after the sort block, P the particles' recorded host ids in file order *)
  Definition pinds (f : flags) (slabs : list (slab R)) (phid : list Z) : res (list Z) :=
    if negb (mem (haystack L) (names_under f (created L))) then Raise OtherError else
    h <- final_column f slabs (haystack L) ;;
    searchsorted_parallel (sside L) (keys_of h) phid.
End Staging.
