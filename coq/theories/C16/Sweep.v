(* C16/Sweep.v — the finite sweep over every configuration of read_asdf's column logic, lifted to a forall. *)
From Coq Require Import ZArith List Bool Lia.
From Abacus.Common Require Import Arr.
From Abacus.C16 Require Import Types Gen Spec Model.
Import ListNotations.

(* ---- finite-type sweeps: a boolean predicate checked on every inhabitant holds for all of them ---- *)
Definition allb (f : bool -> bool) : bool := f true && f false.
Lemma allb_spec f : allb f = true -> forall b, f b = true.
Proof. unfold allb. intros H b. apply andb_prop in H. destruct H, b; assumption. Qed.

Definition all_tri_b (f : tri -> bool) : bool := f TN && f TT && f TF.
Lemma all_tri_spec f : all_tri_b f = true -> forall t, f t = true.
Proof. unfold all_tri_b. intros H t. apply andb_prop in H. destruct H as [H H3]. apply andb_prop in H. destruct H, t; assumption. Qed.

Definition all_optraw_b (f : option rawcol -> bool) : bool :=
  f None && f (Some Rvint) && f (Some Pack9) && f (Some Packedpid) && f (Some Pid).
Lemma all_optraw_spec f : all_optraw_b f = true -> forall o, f o = true.
Proof.
  unfold all_optraw_b. intros H o. repeat (apply andb_prop in H; destruct H as [H ?]).
  destruct o as [[]|]; assumption.
Qed.

(* subsets as bit masks *)
Definition mask4 := (bool * bool * bool * bool)%type.
Definition mask8 := (bool * bool * bool * bool * bool * bool * bool * bool)%type.
Definition pick {A} (b : bool) (x : A) : list A := if b then [x] else [].
Definition raws_of (m : mask4) : list rawcol :=
  let '(a, b, c, d) := m in pick a Rvint ++ pick b Pack9 ++ pick c Packedpid ++ pick d Pid.
Definition cols_of (m : mask8) : list col :=
  let '(a, b, c, d, e, f, g, h) := m in
  pick a Pos ++ pick b Vel ++ pick c CPid ++ pick d LagrPos ++ pick e Tagged ++ pick f Density ++ pick g LagrIdx ++ pick h Aux.

Definition all_mask4_b (f : mask4 -> bool) : bool :=
  allb (fun a => allb (fun b => allb (fun c => allb (fun d => f (a, b, c, d))))).
Lemma all_mask4_spec f : all_mask4_b f = true -> forall m, f m = true.
Proof.
  unfold all_mask4_b. intros H [[[a b] c] d].
  pose proof (allb_spec _ H a) as H1. pose proof (allb_spec _ H1 b) as H2. pose proof (allb_spec _ H2 c) as H3.
  exact (allb_spec _ H3 d).
Qed.

Definition all_mask8_b (f : mask8 -> bool) : bool :=
  allb (fun a => allb (fun b => allb (fun c => allb (fun d => allb (fun e => allb (fun g => allb (fun h => allb (fun i =>
    f (a, b, c, d, e, g, h, i))))))))).
Lemma all_mask8_spec f : all_mask8_b f = true -> forall m, f m = true.
Proof.
  unfold all_mask8_b. intros H [[[[[[[a b] c] d] e] g] h] i].
  pose proof (allb_spec _ H a) as H1. pose proof (allb_spec _ H1 b) as H2. pose proof (allb_spec _ H2 c) as H3.
  pose proof (allb_spec _ H3 d) as H4. pose proof (allb_spec _ H4 e) as H5. pose proof (allb_spec _ H5 g) as H6.
  pose proof (allb_spec _ H6 h) as H7. exact (allb_spec _ H7 i).
Qed.

Definition all_optmask8_b (f : option mask8 -> bool) : bool := f None && all_mask8_b (fun m => f (Some m)).
Lemma all_optmask8_spec f : all_optmask8_b f = true -> forall o, f o = true.
Proof.
  unfold all_optmask8_b. intros H o. apply andb_prop in H. destruct H as [H0 H1].
  destruct o as [m|]; [exact (all_mask8_spec _ H1 m)|exact H0].
Qed.

(* ---- the predicate checked on each configuration -------------------------------------------------- *)
Definition res_raw_eqb (a b : res rawcol) : bool :=
  match a, b with
  | Ok x, Ok y => rawcol_eqb x y
  | Oob, Oob => true
  | Raise e, Raise f => match e, f with
                        | ValueError, ValueError | KeyError, KeyError | AssertionError, AssertionError
                        | OtherError, OtherError => true
                        | _, _ => false
                        end
  | _, _ => false
  end.

Definition fst_res (r : res (rawcol * list col)) : res rawcol :=
  match r with Ok (c, _) => Ok c | Oob => Oob | Raise e => Raise e end.

(* one configuration: raw columns present in the file, the colname argument, load (None or a subset of the eight names),
   the two deprecated flags *)
Definition check_cfg (present : mask4) (arg : option rawcol) (load : option mask8) (lp lv : tri) : bool :=
  let pres := raws_of present in
  let ld := option_map cols_of load in
  let r := read_columns pres arg ld lp lv in
  (* 1. which raw column is decoded, or which error: as documented *)
  res_raw_eqb (fst_res r) (spec_detect pres arg) &&
  match r with
  | Ok (c, cols) =>
      let req := spec_request c ld lp lv in
      (* 2. no column twice; nothing that was not asked for *)
      nodup_b cols && subset cols req &&
      (* 3. every request made of loadable columns (or the defaults) is served exactly *)
      (if subset req (loadable c) then same_set cols req else true) &&
      (* 4. the defaults and the deprecated table are made of loadable columns when the file type matches *)
      (match ld with None => if flags_given lp lv then true else subset req (loadable c) | Some _ => true end)
  | _ => true
  end.

Definition sweep : bool :=
  all_mask4_b (fun present => all_optraw_b (fun arg => all_optmask8_b (fun load => all_tri_b (fun lp => all_tri_b (fun lv =>
    check_cfg present arg load lp lv))))).

(* 2^4 * 5 * (1 + 2^8) * 3 * 3 = 185 040 configurations *)
Lemma sweep_true : sweep = true.
Proof. vm_compute. reflexivity. Qed.

Lemma resolve_total_table_lemma : forall present arg load lp lv, check_cfg present arg load lp lv = true.
Proof.
  intros present arg load lp lv. pose proof sweep_true as H. unfold sweep in H.
  pose proof (all_mask4_spec _ H present) as H1. pose proof (all_optraw_spec _ H1 arg) as H2.
  pose proof (all_optmask8_spec _ H2 load) as H3. pose proof (all_tri_spec _ H3 lp) as H4.
  exact (all_tri_spec _ H4 lv).
Qed.

