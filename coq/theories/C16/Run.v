(* C16/Run.v — executable glue for the correspondence run (no theorem depends on it). *)
From Coq Require Import ZArith List Bool.
From Abacus.Common Require Import Arr Corr.
From Abacus.C16 Require Import Types Gen Spec Model.
Import ListNotations.
Local Open Scope Z_scope.

Definition col_index (c : col) : Z :=
  match c with Pos => 0 | Vel => 1 | CPid => 2 | LagrPos => 3 | Tagged => 4 | Density => 5 | LagrIdx => 6 | Aux => 7 end.

(* _resolve_columns: the returned tuple, in order *)
Definition resolve_case := (rawcol * option (list col) * tri * tri)%type.
Definition run_resolve (c : resolve_case) : val :=
  let '(rc, load, lp, lv) := c in VL (map (fun x => VZ (col_index x)) (resolve rc load lp lv)).

(* read_asdf: the set of table columns (in the fixed order of all_cols) and the number of rows, or the error *)
Definition read_case := (list rawcol * option rawcol * option (list col) * tri * tri * Z * Z)%type.
Definition run_read (c : read_case) : val :=
  let '(present, arg, load, lp, lv, nrows, npart) := c in
  vres (fun '(rc, cols) =>
          VL [VL (map (fun x => VZ (col_index x)) (filter (fun x => mem_col x cols) all_cols));
              VZ (match cols with [] => 0 | _ => nread rc (resolve rc load lp lv) nrows npart end)])
       (read_columns present arg load lp lv).

(* the property on the model (used by the failing-input search) *)
Definition holds_read (c : read_case) : bool :=
  let '(present, arg, load, lp, lv, nrows, npart) := c in
  match read_columns present arg load lp lv, spec_detect present arg with
  | Ok (rc, cols), Ok rc' =>
      rawcol_eqb rc rc' &&
      let req := spec_request rc load lp lv in
      if subset req (loadable rc) then same_set cols req && nodup_b cols else true
  | Raise ValueError, Raise ValueError | Raise KeyError, Raise KeyError => true
  | _, _ => false
  end.
