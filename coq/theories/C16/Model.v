(* C16/Model.v — executable model of read_asdf's column logic: raw-column auto-detection, _resolve_columns, the set of
   table columns, the row count after truncation, and the table as (column, value) pairs over abstract decoders.
   The tables (detection order, deprecated-flag conditions, defaults, direct columns, decoder dispatch, PID fields) are
   Gen.v, regenerated from read_abacus.py; the control flow around them is hand-written here.  No proofs. *)
From Coq Require Import ZArith List Bool.
From Abacus.Common Require Import Arr.
From Abacus.C16 Require Import Types Gen.
Import ListNotations.
Local Open Scope res_scope.

(* for cn in _colnames: if cn in tree: (if colname is not None: raise ValueError); colname = cn *)
Fixpoint detect_loop (names present : list rawcol) (colname : option rawcol) : res (option rawcol) :=
  match names with
  | [] => Ok colname
  | cn :: t =>
      if mem_raw cn present then
        match colname with
        | Some _ => Raise ValueError
        | None => detect_loop t present (Some cn)
        end
      else detect_loop t present colname
  end.

Definition detect (present : list rawcol) (arg : option rawcol) : res rawcol :=
  match arg with
  | Some c => Ok c
  | None =>
      r <- detect_loop gen_colnames present None ;;
      match r with
      | None => Raise ValueError
      | Some c => Ok c
      end
  end.

(* _resolve_columns(colname, load, kwargs) with kwargs = {load_pos: lp, load_vel: lv} *)
Definition resolve (c : rawcol) (load : option (list col)) (lp lv : tri) : list col :=
  let load1 :=
    if gen_dep_active lp lv then
      match load with
      | None => Some (gen_dep_load lp lv)
      | Some l => Some l
      end
    else load in
  match load1 with
  | None => gen_defaults c
  | Some l => l
  end.

Definition pidlike (c : rawcol) : bool := match gen_decoder c with DecPids => true | _ => false end.

(* the columns of the returned table: the direct ones ('pos', 'vel', 'aux' when named in load), then, for PID files, the
   fields unpack_pids was asked for *)
Definition table_columns (c : rawcol) (load : list col) : list col :=
  filter (fun x => mem_col x load) gen_direct_cols ++
  (if pidlike c then filter (fun x => mem_col x load) gen_pid_fields else []).

Definition read_columns (present : list rawcol) (arg : option rawcol) (load : option (list col)) (lp lv : tri)
  : res (rawcol * list col) :=
  c <- detect present arg ;;
  if mem_raw c present then Ok (c, table_columns c (resolve c load lp lv)) else Raise KeyError.

(* rows kept by table[:nread]: nrows raw rows, of which npart decode to a particle (pack9: non-header records) *)
Definition nread (c : rawcol) (load : list col) (nrows npart : Z) : Z :=
  let cnt (n : Z) (x : col) := if mem_col x load then n else 0%Z in
  match gen_decoder c with
  | DecRvint => Z.max (cnt nrows Pos) (cnt nrows Vel)
  | DecPack9 => Z.max (cnt npart Pos) (cnt npart Vel)
  | DecPids => nrows
  | DecNone => 0%Z
  end.

(* the table as (column, value): every value is the decoder of that column applied to the file's raw column *)
Section Values.
  Context {V : Type} (decode : rawcol -> col -> V).
  Definition table (c : rawcol) (load : list col) : list (col * V) :=
    map (fun x => (x, decode c x)) (table_columns c load).
End Values.
