(* C16/Proofs.v — statements for arbitrary `load` lists, detection, row count, values. *)
From Coq Require Import ZArith List Bool Lia.
From Abacus.Common Require Import Arr.
From Abacus.C16 Require Import Types Gen Spec Model.
Import ListNotations.

(* ---- statements for arbitrary `load` lists (any order, duplicates, any length) -------------------- *)
Lemma load_wins_lemma : forall c l lp lv, resolve c (Some l) lp lv = l.
Proof. intros c l lp lv. unfold resolve. destruct (gen_dep_active lp lv); reflexivity. Qed.

Lemma defaults_lemma : forall c, resolve c None TN TN = spec_defaults c.
Proof. intros []; reflexivity. Qed.

Lemma deprecated_table_lemma : forall c lp lv, flags_given lp lv = true -> resolve c None lp lv = spec_deprecated lp lv.
Proof. intros c [] [] H; try discriminate H; reflexivity. Qed.

Lemma mem_col_In x l : mem_col x l = true <-> In x l.
Proof.
  unfold mem_col. rewrite existsb_exists. split.
  - intros [y [Hy E]]. destruct x, y; try discriminate; exact Hy.
  - intros H. exists x. split; [exact H|]. destruct x; reflexivity.
Qed.

Definition produced (c : rawcol) : list col := gen_direct_cols ++ (if pidlike c then gen_pid_fields else []).

Lemma table_columns_In c l x : In x (table_columns c l) <-> In x l /\ In x (produced c).
Proof.
  unfold table_columns, produced. rewrite !in_app_iff.
  destruct (pidlike c); rewrite ?filter_In, ?mem_col_In; cbn [In]; tauto.
Qed.

Lemma NoDup_filter {A} (f : A -> bool) l : NoDup l -> NoDup (filter f l).
Proof.
  induction 1 as [|x l Hx Hl IH]; cbn [filter]; [constructor|].
  destruct (f x); [constructor; [rewrite filter_In; tauto|exact IH]|exact IH].
Qed.

Lemma produced_nodup c : NoDup (produced c).
Proof.
  destruct c; cbv; repeat constructor; cbn; intuition discriminate.
Qed.

Lemma table_columns_nodup c l : NoDup (table_columns c l).
Proof.
  assert (E : table_columns c l = filter (fun x => mem_col x l) (produced c)).
  { unfold table_columns, produced. rewrite filter_app. destruct (pidlike c); reflexivity. }
  rewrite E. apply NoDup_filter. apply produced_nodup.
Qed.

Lemma loadable_produced c x : In x (loadable c) -> In x (produced c).
Proof. destruct c; cbv; intuition. Qed.

(* exactly the requested columns, for any request made of loadable columns *)
Lemma exact_columns_lemma : forall c l,
  (forall x, In x l -> In x (loadable c)) ->
  NoDup (table_columns c l) /\ forall x, In x (table_columns c l) <-> In x l.
Proof.
  intros c l Hl. split; [apply table_columns_nodup|].
  intros x. rewrite table_columns_In. split; [tauto|]. intros H. split; [exact H|].
  apply loadable_produced. apply Hl. exact H.
Qed.

(* detection, for an arbitrary list of present columns *)
Lemma detect_lemma : forall present arg,
  (c <- detect present arg ;; if mem_raw c present then Ok c else Raise KeyError)%res = spec_detect present arg.
Proof.
  intros present arg. unfold detect, spec_detect. destruct arg as [c|]; [reflexivity|].
  unfold gen_colnames, all_rawcols. cbn [detect_loop filter].
  destruct (mem_raw Rvint present) eqn:E1; destruct (mem_raw Pack9 present) eqn:E2;
    destruct (mem_raw Packedpid present) eqn:E3; destruct (mem_raw Pid present) eqn:E4;
    cbn [bind]; rewrite ?E1, ?E2, ?E3, ?E4; reflexivity.
Qed.

Lemma row_count_lemma : forall c l nrows npart,
  (0 <= npart <= nrows)%Z ->
  (exists x, In x l /\ In x (loadable c)) ->
  nread c l nrows npart = match c with Pack9 => npart | _ => nrows end.
Proof.
  intros c l nrows npart Hn [x [Hx Hc]]. unfold nread. cbv zeta.
  destruct c; cbn [gen_decoder]; try reflexivity; cbn in Hc;
    destruct Hc as [Hc|[Hc|[]]]; subst x; apply mem_col_In in Hx; rewrite Hx;
    match goal with |- context [if ?b then _ else _] => destruct b end; lia.
Qed.

Section ValuesLemmas.
  Context {V : Type} (decode : rawcol -> col -> V).

  Lemma values_independent_lemma : forall c l1 l2 x v1 v2,
    In (x, v1) (table decode c l1) -> In (x, v2) (table decode c l2) -> v1 = v2 /\ v1 = decode c x.
  Proof.
    intros c l1 l2 x v1 v2 H1 H2. unfold table in *. rewrite in_map_iff in H1, H2.
    destruct H1 as [y1 [E1 _]]. destruct H2 as [y2 [E2 _]]. inversion E1; inversion E2; subst. split; reflexivity.
  Qed.

  Lemma table_keys_lemma : forall c l, map fst (table decode c l) = table_columns c l.
  Proof. intros c l. unfold table. rewrite map_map. cbn [fst]. apply map_id. Qed.
End ValuesLemmas.
