(* C16/ProofsPpd.v — the default of ppd (regenerated expression Gen.gen_ppd_default). *)
From Coq Require Import ZArith QArith Lia Lqa.
From Abacus.Common Require Import Num.
From Abacus.C16 Require Import Types Gen.
Local Open Scope Z_scope.

(* ---- ppd default: rounding to the nearest integer recovers N from any h within 1/2 of it *)
Lemma ppd_default_nearest_lemma : forall (N : Z) (h : Q),
  (inject_Z N - (1 # 2) < h)%Q -> (h < inject_Z N + (1 # 2))%Q -> gen_ppd_default h = N.
Proof.
  intros N h H1 H2. unfold gen_ppd_default.
  destruct (round_half_even_bound h) as [B1 B2].
  set (r := round_half_even h) in *.
  assert (A : (inject_Z r < inject_Z N + 1)%Q) by lra.
  assert (B : (inject_Z N - 1 < inject_Z r)%Q) by lra.
  assert (A' : (r < N + 1)%Z).
  { rewrite Zlt_Qlt, inject_Z_plus. exact A. }
  assert (B' : (N - 1 < r)%Z).
  { rewrite Zlt_Qlt. unfold Z.sub. rewrite inject_Z_plus. exact B. }
  lia.
Qed.
