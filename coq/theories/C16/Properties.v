(* C16/Properties.v — read_asdf returns exactly the requested particle columns.

   The tables (auto-detection order, deprecated-flag conditions, defaults, direct columns, decoder dispatch, PID fields)
   are Gen.v, regenerated on every run from abacusnbody/data/read_abacus.py; the control flow around them is the
   hand-written Model.v, compared exhaustively with the real _resolve_columns and end to end with read_asdf on
   synthetic files.  Statements only; proofs are in Sweep.v / Proofs.v. *)
From Coq Require Import ZArith List Bool.
From Abacus.Common Require Import Arr.
From Abacus.C16 Require Import Types Gen Spec Model Sweep Proofs ProofsPpd.
Import ListNotations.

(* ★ resolve_total_table — FINITE sweep, bound stated: for every one of the
       2^4 sets of known raw columns present in the file  x  5 colname arguments (None or one of the four names)
       x (1 + 2^8) values of load (None or a subset of the eight column names)  x  3 x 3 deprecated load_pos/load_vel
     = 185 040 configurations (checked by vm_compute in Sweep.sweep_true and lifted to this forall):
   1. the raw column that is decoded, or the error, is the documented one: the explicitly named column (KeyError when
      the file lacks it), otherwise the unique known column present, ValueError when there are several or none;
   2. the table never has a column twice nor a column that was not requested;
   3. whenever the request — load, else the deprecated-flag table, else the defaults — consists of loadable columns of
      the detected file type, the table has exactly the requested columns;
   4. the defaults consist of loadable columns. *)
Theorem resolve_total_table : forall (present : mask4) (arg : option rawcol) (load : option mask8) (lp lv : tri),
  check_cfg present arg load lp lv = true.
Proof. exact resolve_total_table_lemma. Qed.
Print Assumptions resolve_total_table.

(* The same facts for ARBITRARY load lists (any order, duplicates, any length) — not a finite sweep. *)

(* an explicit load wins over the deprecated flags and is returned as is *)
Theorem load_wins : forall c l lp lv, resolve c (Some l) lp lv = l.
Proof. exact load_wins_lemma. Qed.
Print Assumptions load_wins.

(* documented defaults per detected file type *)
Theorem defaults : forall c, resolve c None TN TN = spec_defaults c.
Proof. exact defaults_lemma. Qed.
Print Assumptions defaults.

(* the deprecated load_pos / load_vel table *)
Theorem deprecated_table : forall c lp lv, flags_given lp lv = true -> resolve c None lp lv = spec_deprecated lp lv.
Proof. exact deprecated_table_lemma. Qed.
Print Assumptions deprecated_table.

(* ★ exactly the requested columns: for every request made of loadable columns of the file type, the table's columns
   are pairwise distinct and are exactly the requested ones *)
Theorem exact_columns : forall c l,
  (forall x, In x l -> In x (loadable c)) ->
  NoDup (table_columns c l) /\ forall x, In x (table_columns c l) <-> In x l.
Proof. exact exact_columns_lemma. Qed.
Print Assumptions exact_columns.

(* ★ detection, for an arbitrary list of columns present in the file *)
Theorem detection : forall present arg,
  (c <- detect present arg ;; if mem_raw c present then Ok c else Raise KeyError)%res = spec_detect present arg.
Proof. exact detect_lemma. Qed.
Print Assumptions detection.

(* one row per particle: when at least one loadable column is requested the table keeps all raw rows (rvint, pids) /
   one row per non-header record (pack9: the count the decoder returned) *)
Theorem row_count : forall c l nrows npart,
  (0 <= npart <= nrows)%Z ->
  (exists x, In x l /\ In x (loadable c)) ->
  nread c l nrows npart = match c with Pack9 => npart | _ => nrows end.
Proof. exact row_count_lemma. Qed.
Print Assumptions row_count.

(* ★ values_independent: a column's value is its decoder applied to the file's raw column (decoders abstract here; they
   are the subject of C04 and C15), so two reads of the same file that both return column x return the same value,
   whatever else each of them requested *)
Theorem values_independent : forall (V : Type) (decode : rawcol -> col -> V) c l1 l2 x v1 v2,
  In (x, v1) (table decode c l1) -> In (x, v2) (table decode c l2) -> v1 = v2 /\ v1 = decode c x.
Proof. exact (fun V decode => values_independent_lemma decode). Qed.
Print Assumptions values_independent.

(* the ppd handed to unpack_pids when the caller gives none is the header value rounded to the NEAREST integer (the default
   expression `kwargs.get('ppd', int(round(header['ppd'])))` and the arguments of the three decoder calls are checked
   structurally by the generator): a header ppd written as a float cube root of the particle number — a hair below or above
   the integer — still gives that integer *)
Theorem ppd_default_nearest : forall (N : BinNums.Z) (h : QArith_base.Q),
  QArith_base.Qlt (QArith_base.Qminus (QArith_base.inject_Z N) (QArith_base.Qmake 1 2)) h ->
  QArith_base.Qlt h (QArith_base.Qplus (QArith_base.inject_Z N) (QArith_base.Qmake 1 2)) -> gen_ppd_default h = N.
Proof. exact ppd_default_nearest_lemma. Qed.
Print Assumptions ppd_default_nearest.
