(* C16/Types.v — the finite vocabularies of read_asdf's column resolution (shared by the generated tables and the model). *)
From Coq Require Import List Bool.
Import ListNotations.

(* the raw data columns read_asdf knows how to detect *)
Inductive rawcol := Rvint | Pack9 | Packedpid | Pid.

(* the columns a caller may name in `load` *)
Inductive col := Pos | Vel | CPid | LagrPos | Tagged | Density | LagrIdx | Aux.

(* a deprecated flag load_pos / load_vel: not given (None), True, False *)
Inductive tri := TN | TT | TF.

(* which decoder read_asdf dispatches to *)
Inductive decoder := DecRvint | DecPack9 | DecPids | DecNone.

Definition rawcol_eqb (a b : rawcol) : bool :=
  match a, b with Rvint, Rvint | Pack9, Pack9 | Packedpid, Packedpid | Pid, Pid => true | _, _ => false end.

Definition col_eqb (a b : col) : bool :=
  match a, b with
  | Pos, Pos | Vel, Vel | CPid, CPid | LagrPos, LagrPos | Tagged, Tagged | Density, Density | LagrIdx, LagrIdx | Aux, Aux => true
  | _, _ => false
  end.

Definition tri_eqb (a b : tri) : bool :=
  match a, b with TN, TN | TT, TT | TF, TF => true | _, _ => false end.

(* Python truthiness of None / True / False *)
Definition tri_truthy (t : tri) : bool := match t with TT => true | _ => false end.

Definition all_rawcols : list rawcol := [Rvint; Pack9; Packedpid; Pid].
Definition all_cols : list col := [Pos; Vel; CPid; LagrPos; Tagged; Density; LagrIdx; Aux].
Definition all_tri : list tri := [TN; TT; TF].

Definition mem_raw (c : rawcol) (l : list rawcol) : bool := existsb (rawcol_eqb c) l.
Definition mem_col (c : col) (l : list col) : bool := existsb (col_eqb c) l.
