(* C16/Examples.v — non-vacuity of the hypotheses of Properties.v and regression values. *)
From Coq Require Import ZArith List Bool Lia.
From Abacus.Common Require Import Arr.
From Abacus.C16 Require Import Types Gen Spec Model Sweep Proofs.
Import ListNotations.

Example flags_given_ex : flags_given TN TF = true /\ flags_given TT TN = true /\ flags_given TN TN = false.
Proof. repeat split. Qed.

Example loadable_request_ex : forall x, In x [LagrIdx; CPid; Aux] -> In x (loadable Packedpid).
Proof. intros x H. cbn in *. intuition. Qed.
Example loadable_request_ex2 : forall x, In x [Vel] -> In x (loadable Pack9).
Proof. intros x H. cbn in *. intuition. Qed.

Example row_count_hyp : (0 <= 5 <= 9)%Z /\ exists x, In x [Vel; CPid] /\ In x (loadable Pack9).
Proof. split; [lia|]. exists Vel. cbn. intuition. Qed.

Example values_hyp :
  In (CPid, 7) (table (fun _ _ => 7) Pid [CPid; Tagged]) /\ In (CPid, 7) (table (fun _ _ => 7) Pid [Aux; CPid]).
Proof. split; cbn; intuition. Qed.

(* ---- regression values ------------------------------------------------------------------------ *)
Example ex_default_rv : read_columns [Rvint] None None TN TN = Ok (Rvint, [Pos; Vel]).         Proof. reflexivity. Qed.
Example ex_default_pid : read_columns [Packedpid] None None TN TN = Ok (Packedpid, [CPid]).    Proof. reflexivity. Qed.
Example ex_two : read_columns [Rvint; Pid] None None TN TN = Raise ValueError.                 Proof. reflexivity. Qed.
Example ex_none : read_columns [] None None TN TN = Raise ValueError.                          Proof. reflexivity. Qed.
Example ex_named : read_columns [Rvint; Pid] (Some Pid) None TN TN = Ok (Pid, [CPid]).         Proof. reflexivity. Qed.
Example ex_named_missing : read_columns [Rvint] (Some Pid) None TN TN = Raise KeyError.        Proof. reflexivity. Qed.
Example ex_dep1 : resolve Rvint None TT TN = [Pos].                                            Proof. reflexivity. Qed.
Example ex_dep2 : resolve Rvint None TN TF = [Pos].                                            Proof. reflexivity. Qed.
Example ex_dep3 : resolve Pack9 None TF TF = [].                                               Proof. reflexivity. Qed.
Example ex_dep_ignored : resolve Pack9 (Some [Vel]) TT TF = [Vel].                             Proof. reflexivity. Qed.
Example ex_pid_cols : table_columns Packedpid [LagrIdx; Aux; CPid; CPid] = [Aux; CPid; LagrIdx]. Proof. reflexivity. Qed.
Example ex_rv_ignores_pid_fields : table_columns Rvint [Pos; CPid] = [Pos].                    Proof. reflexivity. Qed.
(* outside the property's quantifier (not loadable for the file type), recorded for reference: *)
Example ex_pos_from_pid_file : table_columns Pid [Pos; CPid] = [Pos; CPid].                    Proof. reflexivity. Qed.
Example ex_aux_from_rv_file_has_no_rows : nread Rvint [Aux] 9 9 = 0%Z.                          Proof. reflexivity. Qed.
