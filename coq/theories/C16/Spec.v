(* C16/Spec.v — what read_asdf documents about column selection, written independently of the code.

   File types and their loadable columns:  rvint, pack9 files hold positions and velocities (pos, vel);
   packedpid, pid files hold the aux word (pid, lagr_pos, tagged, density, lagr_idx, and the raw word as aux).
   Defaults (load=None, no deprecated flag): pos and vel for rvint/pack9; pid for packedpid/pid.
   Deprecated load_pos/load_vel (only looked at when load is None): an explicit True selects, an explicit False
   deselects, and a flag left out is the complement of an explicit False / not selected next to an explicit True.
   Auto-detection: exactly one of the four known raw columns must be present, otherwise ValueError; a column named
   explicitly is used as is (KeyError if the file lacks it). *)
From Coq Require Import List Bool.
From Abacus.Common Require Import Arr.
From Abacus.C16 Require Import Types.
Import ListNotations.

Definition loadable (c : rawcol) : list col :=
  match c with
  | Rvint | Pack9 => [Pos; Vel]
  | Packedpid | Pid => [CPid; LagrPos; Tagged; Density; LagrIdx; Aux]
  end.

Definition spec_defaults (c : rawcol) : list col :=
  match c with
  | Rvint | Pack9 => [Pos; Vel]
  | Packedpid | Pid => [CPid]
  end.

Definition spec_deprecated (lp lv : tri) : list col :=
  match lp, lv with
  | TN, TN => []
  | TN, TT => [Vel]      | TN, TF => [Pos]
  | TT, TN => [Pos]      | TT, TT => [Pos; Vel]   | TT, TF => [Pos]
  | TF, TN => [Vel]      | TF, TT => [Vel]        | TF, TF => []
  end.

Definition flags_given (lp lv : tri) : bool := negb (tri_eqb lp TN && tri_eqb lv TN).

(* the columns the caller asked for *)
Definition spec_request (c : rawcol) (load : option (list col)) (lp lv : tri) : list col :=
  match load with
  | Some l => l
  | None => if flags_given lp lv then spec_deprecated lp lv else spec_defaults c
  end.

Definition spec_detect (present : list rawcol) (arg : option rawcol) : res rawcol :=
  match arg with
  | Some c => if mem_raw c present then Ok c else Raise KeyError
  | None =>
      match filter (fun c => mem_raw c present) all_rawcols with
      | [c] => Ok c
      | _ => Raise ValueError
      end
  end.

Definition subset (a b : list col) : bool := forallb (fun x => mem_col x b) a.
Definition same_set (a b : list col) : bool := forallb (fun x => Bool.eqb (mem_col x a) (mem_col x b)) all_cols.
Fixpoint nodup_b (l : list col) : bool :=
  match l with [] => true | x :: t => negb (mem_col x t) && nodup_b t end.
