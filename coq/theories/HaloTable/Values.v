(* HaloTable/Values.v (shared by C05 and C02) — the value of a halo column according to the generated loader table (no proofs).

   A column's expression may read other unpacked columns (halos[..]); the generated table has depth 1
   ([depth_ok], checked in Proofs.v), so two levels of evaluation are enough: a read below that yields 0 / NUninit.
   Temporary-column mechanics (allocation, dtype casts, request handling) are C02's subject; here intermediate
   columns are float32 (= exact) values. *)
From Coq Require Import ZArith QArith Reals Qreals List Bool.
From Abacus.Common Require Import Num.
From Abacus.HaloTable Require Import Expr Gen.
Import ListNotations.

(* unit valuations *)
Definition unitsR (box zkms : R) (u : unitsym) : R := match u with UBox => box | UZkms => zkms end.
Definition units_offR (u : unitsym) : R := Q2R (unit_off u).
Definition unitsQ (box zkms : Q) (u : unitsym) : Q := match u with UBox => box | UZkms => zkms end.

Section ValueR.
  Variables (X : extR) (u : unitsym -> R) (raw : rawcol -> R) (rawany : rawcol -> bool).
  Definition leafR (c : col) : R := evalR X u raw rawany (fun _ => 0%R) (expr_of c).
  Definition valueR (c : col) : R := evalR X u raw rawany leafR (expr_of c).
End ValueR.

Section ValueN.
  Variables (u : unitsym -> Q) (raw : rawcol -> Q) (rawany : rawcol -> bool).
  Definition leafN (c : col) : num := evalN u raw rawany (fun _ => NUninit) (expr_of c).
  Definition valueN (c : col) : num := evalN u raw rawany leafN (expr_of c).
End ValueN.

Definition is_nil {A} (l : list A) : bool := match l with [] => true | _ => false end.

(* every column read through halos[..] is itself computed from raw columns only *)
Definition depth_ok : bool :=
  forallb (fun c => forallb (fun d => is_nil (halo_reads (expr_of d))) (halo_reads (expr_of c))) all_cols.

(* exactly one registered pattern matches every column name; divisions are by non-zero constants *)
Definition table_ok : bool :=
  forallb (fun c => Z.eqb (n_loaders c) 1 && divisors_nonzero (expr_of c)) all_cols.
