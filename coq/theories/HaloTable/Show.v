(* HaloTable/Show.v — executable glue shared by the correspondence checks of C05 and C02 (no theorem depends on it):
   raw rows as association lists, and how a model value is compared with the float the implementation returned. *)
From Coq Require Import ZArith QArith List Bool.
From Abacus.Common Require Import Arr Num Corr.
From Abacus.HaloTable Require Import Expr Gen Values.
Import ListNotations.
Local Open Scope Z_scope.

Definition lookup (l : list (rawcol * Q)) (r : rawcol) : Q :=
  match find (fun p => raw_idx (fst p) =? raw_idx r) l with Some p => snd p | None => 0%Q end.
Definition member (l : list rawcol) (r : rawcol) : bool := existsb (fun x => raw_idx x =? raw_idx r) l.

(* a query: column, the float the implementation returned (m) and a tolerance h.
   h = 0: the model value is printed and compared exactly.
   h > 0: the model only says whether the implementation's value lies within h (through squares for np.sqrt). *)
Definition query := (col * Q * Q)%type.

Definition Qleb := Qle_bool.

Definition show (v : num) (m h : Q) : val :=
  match v with
  | NQ q => if Qeq_bool h 0 then VQ q else VB (Qleb (m - h)%Q q && Qleb q (m + h)%Q)
  | NSqrt rad =>
      let lo := if Qleb h m then ((m - h) * (m - h))%Q else 0%Q in
      VB (Qleb lo rad && Qleb rad ((m + h) * (m + h))%Q)
  | NNaN => VNone
  | NEuler w code => VL [VZ w; VQ code]
  | NUninit => VOob
  end.

Definition units_of (on : bool) (box zkms : Q) : unitsym -> Q := if on then unitsQ box zkms else unit_off.
