(* HaloTable/Expr.v (shared by C05 and C02) — the expression language of the halo-column loader table and its two evaluators.

   tools/gen/c05.py turns every loader closure of CompaSOHaloCatalog._setup_halo_field_loaders, instantiated on
   every column name of the dtype tables, into one [expr] over the generated name types [col] / [rawcol].
   No proofs about the table in here (model only); the small lemmas at the end relate the two evaluators.

   Conventions: one halo row, one component at a time.  [raw r] is the value of raw column r at the component
   under consideration, a scalar raw column being reused for every component (NumPy broadcasting; the loader's
   `.reshape(-1, 1)` is the identity here).  [rawany r] says whether any component of row r is non-zero
   (np.any(., axis=1)).  Floating-point rounding is not modelled: float32 values are exact reals/rationals. *)
From Coq Require Import ZArith QArith Qround Reals Qreals List Bool Lra.
From Abacus.Common Require Import Num.
Import ListNotations.

(* the two unit symbols a loader may mention: the local variables `box` and `zspace_to_kms`, identified by the header
   key they are bound to when convert_units is on *)
Inductive unitsym := UBox | UZkms.

(* NumPy scalar kinds of the dtype tables *)
Inductive dkind := F32 | F64 | U8 | U16 | U32 | U64 | I8 | I16 | I32 | I64.

Definition dkind_is_float (k : dkind) : bool := match k with F32 | F64 => true | _ => false end.

Definition dkind_eqb (a b : dkind) : bool :=
  match a, b with
  | F32, F32 | F64, F64 | U8, U8 | U16, U16 | U32, U32 | U64, U64 | I8, I8 | I16, I16 | I32, I32 | I64, I64 => true
  | _, _ => false
  end.

Section Expr.
  Variables (C Rw : Type).

  Inductive expr :=
  | ERaw (r : Rw)                         (* raw[<name>] *)
  | EHalo (c : C)                         (* halos[<name>]: an already unpacked column (intermediate input) *)
  | EUnit (u : unitsym)                   (* box / zspace_to_kms *)
  | EConst (q : Q)                        (* literal or module constant (INT16SCALE) *)
  | EAdd (a b : expr)
  | ESub (a b : expr)
  | EMul (a b : expr)
  | EDivC (a : expr) (d : Q)              (* division by a non-zero constant *)
  | EModC (a : expr) (n : Z)              (* a % n, integer columns *)
  | ESqr (a : expr)                       (* a ** 2 *)
  | ESqrt (a : expr)                      (* np.sqrt *)
  | EWhereAny (r : Rw) (a b : expr)       (* np.where(np.any(raw[r], axis=1)[:, None], a, b) *)
  | EEuler (which : Z) (a : expr).        (* _unpack_euler16(a)[which]   (C18's decoder, opaque here) *)

  (* columns / raw columns read, in Python evaluation order (left to right) — what DepCapture records *)
  Fixpoint halo_reads (e : expr) : list C :=
    match e with
    | EHalo c => [c]
    | ERaw _ | EUnit _ | EConst _ => []
    | EAdd a b | ESub a b | EMul a b => halo_reads a ++ halo_reads b
    | EDivC a _ | EModC a _ | ESqr a | ESqrt a | EEuler _ a => halo_reads a
    | EWhereAny _ a b => halo_reads a ++ halo_reads b
    end.

  Fixpoint raw_reads (e : expr) : list Rw :=
    match e with
    | ERaw r => [r]
    | EHalo _ | EUnit _ | EConst _ => []
    | EAdd a b | ESub a b | EMul a b => raw_reads a ++ raw_reads b
    | EDivC a _ | EModC a _ | ESqr a | ESqrt a | EEuler _ a => raw_reads a
    | EWhereAny r a b => r :: raw_reads a ++ raw_reads b
    end.

  Fixpoint mentions_unit (e : expr) : bool :=
    match e with
    | EUnit _ => true
    | ERaw _ | EHalo _ | EConst _ => false
    | EAdd a b | ESub a b | EMul a b => mentions_unit a || mentions_unit b
    | EDivC a _ | EModC a _ | ESqr a | ESqrt a | EEuler _ a => mentions_unit a
    | EWhereAny _ a b => mentions_unit a || mentions_unit b
    end.

  Fixpoint divisors_nonzero (e : expr) : bool :=
    match e with
    | ERaw _ | EHalo _ | EUnit _ | EConst _ => true
    | EAdd a b | ESub a b | EMul a b | EWhereAny _ a b => divisors_nonzero a && divisors_nonzero b
    | EDivC a d => divisors_nonzero a && negb (Qeq_bool d 0)
    | EModC a _ | ESqr a | ESqrt a | EEuler _ a => divisors_nonzero a
    end.

  (* the sqrt-free, mod-free, opaque-free fragment on which the two evaluators provably agree *)
  Fixpoint arithmetic (e : expr) : bool :=
    match e with
    | ERaw _ | EHalo _ | EUnit _ | EConst _ => true
    | EAdd a b | ESub a b | EMul a b => arithmetic a && arithmetic b
    | EDivC a d => arithmetic a && negb (Qeq_bool d 0)
    | ESqr a => arithmetic a
    | EModC _ _ | ESqrt _ | EWhereAny _ _ _ | EEuler _ _ => false
    end.

  (* ---------------------------------------------------------------- evaluation over the reals (theorems) *)
  Record extR := { eulR : Z -> R -> R; modR : R -> Z -> R }.   (* opaque functions: universally quantified in theorems *)

  Section EvalR.
    Variables (X : extR) (unit : unitsym -> R) (raw : Rw -> R) (rawany : Rw -> bool) (halo : C -> R).
    Fixpoint evalR (e : expr) : R :=
      match e with
      | ERaw r => raw r
      | EHalo c => halo c
      | EUnit u => unit u
      | EConst q => Q2R q
      | EAdd a b => (evalR a + evalR b)%R
      | ESub a b => (evalR a - evalR b)%R
      | EMul a b => (evalR a * evalR b)%R
      | EDivC a d => (evalR a / Q2R d)%R
      | EModC a n => modR X (evalR a) n
      | ESqr a => (evalR a * evalR a)%R
      | ESqrt a => sqrt (evalR a)
      | EWhereAny r a b => if rawany r then evalR a else evalR b
      | EEuler w a => eulR X w (evalR a)
      end.
  End EvalR.

  (* ---------------------------------------------------------------- executable evaluation (correspondence) *)
  (* values: an exact rational; the square root of a non-negative rational kept symbolic (compared with the float
     result through its square, see Run.v); NaN (sqrt of a negative number and anything computed from it); the
     which-th axis decoded from an Euler16 code (opaque); the content of an np.empty cell. *)
  Inductive num := NQ (q : Q) | NSqrt (rad : Q) | NNaN | NEuler (which : Z) (code : Q) | NUninit.

  Definition num_bin (f : Q -> Q -> Q) (x y : num) : num :=
    match x, y with
    | NQ a, NQ b => NQ (f a b)
    | NUninit, _ | _, NUninit => NUninit
    | _, _ => NNaN
    end.

  Definition qmod (q : Q) (n : Z) : Q := inject_Z (Z.modulo (Qfloor q) n).

  Section EvalN.
    Variables (unit : unitsym -> Q) (raw : Rw -> Q) (rawany : Rw -> bool) (halo : C -> num).
    Fixpoint evalN (e : expr) : num :=
      match e with
      | ERaw r => NQ (raw r)
      | EHalo c => halo c
      | EUnit u => NQ (unit u)
      | EConst q => NQ q
      | EAdd a b => num_bin Qplus (evalN a) (evalN b)
      | ESub a b => num_bin Qminus (evalN a) (evalN b)
      | EMul a b => num_bin Qmult (evalN a) (evalN b)
      | EDivC a d => num_bin Qdiv (evalN a) (NQ d)
      | EModC a n => match evalN a with NQ q => NQ (qmod q n) | NUninit => NUninit | _ => NNaN end
      | ESqr a => let v := evalN a in num_bin Qmult v v
      | ESqrt a => match evalN a with
                   | NQ q => if Qltb q 0 then NNaN else NSqrt q
                   | NUninit => NUninit
                   | _ => NNaN
                   end
      | EWhereAny r a b => if rawany r then evalN a else evalN b
      | EEuler w a => match evalN a with NQ q => NEuler w q | NUninit => NUninit | _ => NNaN end
      end.
  End EvalN.

  (* evaluation depends only on the columns / raw columns the expression reads *)
  Lemma evalN_ext unit raw rawany h1 h2 e :
    (forall c, In c (halo_reads e) -> h1 c = h2 c) ->
    evalN unit raw rawany h1 e = evalN unit raw rawany h2 e.
  Proof.
    induction e as [r|c|u|q|a IHa b IHb|a IHa b IHb|a IHa b IHb|a IHa d|a IHa n|a IHa|a IHa|r a IHa b IHb|w a IHa];
      cbn [evalN halo_reads]; intros H;
      try reflexivity;
      try (rewrite IHa, IHb by (intros; apply H; apply in_or_app; auto); reflexivity);
      try (rewrite IHa by (intros; apply H; auto); reflexivity).
    apply H. left. reflexivity.
  Qed.

  (* the two evaluators agree on the arithmetic fragment *)
  Lemma evalN_evalR X uq rq rawany hq e :
    arithmetic e = true ->
    forall hqv, (forall c, In c (halo_reads e) -> hq c = NQ (hqv c)) ->
    exists q, evalN uq rq rawany hq e = NQ q /\
              evalR X (fun u => Q2R (uq u)) (fun r => Q2R (rq r)) rawany (fun c => Q2R (hqv c)) e = Q2R q.
  Proof.
    induction e as [r|c|u|q|a IHa b IHb|a IHa b IHb|a IHa b IHb|a IHa d|a IHa n|a IHa|a IHa|r a IHa b IHb|w a IHa];
      cbn [arithmetic evalN evalR halo_reads]; intros Har hqv Hh; try discriminate.
    - eexists; split; reflexivity.
    - rewrite (Hh c) by (left; reflexivity). eexists; split; reflexivity.
    - eexists; split; reflexivity.
    - eexists; split; reflexivity.
    - apply andb_prop in Har as [Ha Hb].
      destruct (IHa Ha hqv) as [qa [Ea Ra]]; [intros; apply Hh; apply in_or_app; auto|].
      destruct (IHb Hb hqv) as [qb [Eb Rb]]; [intros; apply Hh; apply in_or_app; auto|].
      rewrite Ea, Eb, Ra, Rb. exists (qa + qb)%Q. split; [reflexivity|]. symmetry. apply Q2R_plus.
    - apply andb_prop in Har as [Ha Hb].
      destruct (IHa Ha hqv) as [qa [Ea Ra]]; [intros; apply Hh; apply in_or_app; auto|].
      destruct (IHb Hb hqv) as [qb [Eb Rb]]; [intros; apply Hh; apply in_or_app; auto|].
      rewrite Ea, Eb, Ra, Rb. exists (qa - qb)%Q. split; [reflexivity|]. symmetry. apply Q2R_minus.
    - apply andb_prop in Har as [Ha Hb].
      destruct (IHa Ha hqv) as [qa [Ea Ra]]; [intros; apply Hh; apply in_or_app; auto|].
      destruct (IHb Hb hqv) as [qb [Eb Rb]]; [intros; apply Hh; apply in_or_app; auto|].
      rewrite Ea, Eb, Ra, Rb. exists (qa * qb)%Q. split; [reflexivity|]. symmetry. apply Q2R_mult.
    - apply andb_prop in Har as [Ha Hd].
      destruct (IHa Ha hqv) as [qa [Ea Ra]]; [intros; apply Hh; auto|].
      rewrite Ea, Ra. exists (qa / d)%Q. split; [reflexivity|]. symmetry. apply Q2R_div.
      apply negb_true_iff in Hd. intros Hz. apply Qeq_bool_iff in Hz. congruence.
    - destruct (IHa Har hqv) as [qa [Ea Ra]]; [intros; apply Hh; auto|].
      rewrite Ea, Ra. exists (qa * qa)%Q. split; [reflexivity|]. symmetry. apply Q2R_mult.
  Qed.
End Expr.

Arguments ERaw {C Rw}. Arguments EHalo {C Rw}. Arguments EUnit {C Rw}. Arguments EConst {C Rw}.
Arguments EAdd {C Rw}. Arguments ESub {C Rw}. Arguments EMul {C Rw}. Arguments EDivC {C Rw}.
Arguments EModC {C Rw}. Arguments ESqr {C Rw}. Arguments ESqrt {C Rw}. Arguments EWhereAny {C Rw}. Arguments EEuler {C Rw}.
Arguments halo_reads {C Rw}. Arguments raw_reads {C Rw}. Arguments mentions_unit {C Rw}.
Arguments divisors_nonzero {C Rw}. Arguments arithmetic {C Rw}.
Arguments evalR {C Rw}. Arguments evalN {C Rw}.
Arguments evalN_ext {C Rw}. Arguments evalN_evalR {C Rw}.
