(* C20/Spec.v — the wire format of pipe_asdf as its documentation states it, from the CLIENT's side, written
   independently of the writer's code:

     1) an 8-byte int: the number of data values      (native = little-endian int64)
     2) a 4-byte int: the width of the primitive type  (little-endian int32)
     3) count * width bytes of data
     4) repeat from (1) for all fields requested

   [client_read n stream] is a client that requested n fields and reads exactly that. *)
From Coq Require Import ZArith List Bool Lia Strings.Byte.
From Abacus.Common Require Import Arr.
Import ListNotations.
Local Open Scope Z_scope.

Definition bval (b : byte) : Z := Z.of_N (Byte.to_N b).
Definition byte_of_Z (z : Z) : byte :=
  match Byte.of_N (Z.to_N (z mod 256)) with Some b => b | None => x00 end.

(* little-endian, k bytes *)
Fixpoint le_encode (k : nat) (n : Z) : list byte :=
  match k with O => [] | S k' => byte_of_Z n :: le_encode k' (n / 256) end.
Fixpoint le_decode (l : list byte) : Z :=
  match l with [] => 0 | b :: t => bval b + 256 * le_decode t end.

Definition take {A} (n : Z) (l : list A) : list A := firstn (Z.to_nat n) l.
Definition drop {A} (n : Z) (l : list A) : list A := skipn (Z.to_nat n) l.

Record record := mkRec { r_count : Z; r_width : Z; r_data : list byte }.

(* read one record; None if the stream is too short.  Counts are read as non-negative numbers (the writer's
   counts are < 2^63 and widths < 2^31, so signed and unsigned readings agree). *)
Definition read_record (s : list byte) : option (record * list byte) :=
  if len s <? 12 then None
  else
    let count := le_decode (take 8 s) in
    let width := le_decode (take 4 (drop 8 s)) in
    let body := drop 12 s in
    let n := count * width in
    if len body <? n then None
    else Some (mkRec count width (take n body), drop n body).

Fixpoint client_read (nfields : nat) (s : list byte) : option (list record * list byte) :=
  match nfields with
  | O => Some ([], s)
  | S k =>
      match read_record s with
      | None => None
      | Some (r, rest) =>
          match client_read k rest with
          | None => None
          | Some (rs, rest') => Some (r :: rs, rest')
          end
      end
  end.
