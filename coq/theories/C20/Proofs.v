(* C20/Proofs.v *)
From Coq Require Import ZArith List Bool Lia Strings.Byte ZifyBool.
From Abacus.Common Require Import Arr.
From Abacus.C20 Require Import Spec Model Expect Lib.
Import ListNotations.
Local Open Scope Z_scope.
Ltac Zify.zify_post_hook ::= Z.to_euclidean_division_equations.

(* ------------------------------------------------------------------ the client on a well-formed stream *)
Lemma read_record_gen (a b data rest : list byte) count width :
  len a = 8 -> len b = 4 -> le_decode a = count -> le_decode b = width -> len data = count * width ->
  read_record (a ++ b ++ data ++ rest) = Some (mkRec count width data, rest).
Proof.
  intros L8 L4 Da Db Hd. unfold read_record.
  pose proof (len_nonneg data) as Hd0. pose proof (len_nonneg rest) as Hr0.
  destruct (len (a ++ b ++ data ++ rest) <? 12) eqn:E.
  { rewrite !len_app in E. lia. }
  rewrite (take_app_exact a _ 8) by lia.
  rewrite (drop_app_exact a _ 8) by lia.
  rewrite (take_app_exact b _ 4) by lia.
  rewrite Da, Db.
  replace (a ++ b ++ data ++ rest) with ((a ++ b) ++ data ++ rest) by (rewrite <- app_assoc; reflexivity).
  rewrite (drop_app_exact (a ++ b) _ 12) by (rewrite len_app; lia).
  destruct (len (data ++ rest) <? count * width) eqn:E2.
  { rewrite len_app in E2. lia. }
  rewrite (take_app_exact data) by lia. rewrite (drop_app_exact data) by lia. reflexivity.
Qed.

Lemma read_record_frame count width data rest :
  0 <= count < 18446744073709551616 -> 0 <= width < 4294967296 -> len data = count * width ->
  read_record (le_encode 8 count ++ le_encode 4 width ++ data ++ rest) = Some (mkRec count width data, rest).
Proof.
  intros Hc Hw Hd. apply read_record_gen.
  - rewrite len_le_encode; reflexivity.
  - rewrite len_le_encode; reflexivity.
  - apply le64_roundtrip; exact Hc.
  - apply le32_roundtrip; exact Hw.
  - exact Hd.
Qed.

(* ------------------------------------------------------------------ arithmetic of columns *)
Lemma fold_mul_nonneg shape : forall acc,
  0 <= acc -> forallb (fun d => 0 <=? d) shape = true -> 0 <= fold_left Z.mul shape acc.
Proof.
  induction shape as [|d t IH]; intros acc Ha H; cbn [fold_left]; [exact Ha|].
  cbn [forallb] in H. apply andb_true_iff in H. destruct H as [Hd Ht].
  apply IH; [nia|exact Ht].
Qed.

Lemma prod_nonneg shape : forallb (fun d => 0 <=? d) shape = true -> 0 <= prod shape.
Proof. intros H. apply fold_mul_nonneg; [lia|exact H]. Qed.

Lemma col_ok_facts c : col_ok c = true ->
  len (c_bytes c) = prod (c_shape c) * c_width c /\ 0 <= prod (c_shape c) /\ 0 <= c_width c < 2147483648.
Proof.
  unfold col_ok. intros H. repeat (apply andb_true_iff in H; destruct H as [H ?]).
  split; [lia|]. split; [apply prod_nonneg; assumption|lia].
Qed.

Lemma data_len afs f w :
  (forall af, In af afs -> col_ok (col_of f af) = true /\ c_width (col_of f af) = w) ->
  len (concat (map (fun af => c_bytes (col_of f af)) afs)) = zsum (map (fun af => prod (c_shape (col_of f af))) afs) * w /\
  0 <= zsum (map (fun af => prod (c_shape (col_of f af))) afs).
Proof.
  induction afs as [|af t IH]; intros H; cbn [map concat zsum fold_right].
  - split; [reflexivity|lia].
  - destruct (H af (or_introl eq_refl)) as [Hok Hw]. apply col_ok_facts in Hok. destruct Hok as (Hl & Hp & Hr).
    destruct IH as [IH1 IH2]; [intros; apply H; right; assumption|].
    rewrite len_app. unfold zsum in *. rewrite IH1, Hl, Hw. split; lia.
Qed.

(* ------------------------------------------------------------------ the writer's loops *)
Definition valid (afs : list file) (fields : list Z) : Prop :=
  forall af f, In af afs -> In f fields -> lookup f af <> None.

Lemma count_loop_ok afs f : forall N w,
  (forall af, In af afs -> lookup f af <> None) ->
  count_loop afs f N w =
  Ok (N + zsum (map (fun af => prod (c_shape (col_of f af))) afs),
      match afs with [] => w | _ => Some (c_width (col_of f (last afs []))) end).
Proof.
  induction afs as [|af t IH]; intros N w H; cbn [count_loop map zsum fold_right].
  - f_equal. f_equal. lia.
  - destruct (lookup f af) as [c|] eqn:E; [|exfalso; apply (H af); [left; reflexivity|exact E]].
    assert (Hc : col_of f af = c) by (unfold col_of; rewrite E; reflexivity).
    rewrite IH by (intros; apply H; right; assumption).
    f_equal. f_equal.
    + rewrite Hc. unfold zsum. lia.
    + destruct t as [|af2 t2]; [cbn [last]; rewrite Hc; reflexivity|reflexivity].
Qed.

Lemma payload_loop_ok afs f : forall out,
  (forall af, In af afs -> lookup f af <> None) ->
  payload_loop afs f out = (out ++ field_data afs f, Ok tt).
Proof.
  induction afs as [|af t IH]; intros out H; cbn [payload_loop].
  - unfold field_data; cbn. rewrite app_nil_r. reflexivity.
  - destruct (lookup f af) as [c|] eqn:E; [|exfalso; apply (H af); [left; reflexivity|exact E]].
    assert (Hc : col_of f af = c) by (unfold col_of; rewrite E; reflexivity).
    rewrite IH by (intros; apply H; right; assumption).
    unfold field_data; cbn [map concat]. rewrite Hc. rewrite <- app_assoc. reflexivity.
Qed.

Lemma io_loop_ok afs fields : forall w out,
  afs <> [] -> valid afs fields ->
  io_loop afs fields w out = (out ++ expected_stream afs fields, Ok tt).
Proof.
  induction fields as [|f t IH]; intros w out Hne Hv; cbn [io_loop].
  - unfold expected_stream; cbn. rewrite app_nil_r. reflexivity.
  - rewrite count_loop_ok by (intros af Ha; apply Hv; [exact Ha|left; reflexivity]).
    destruct afs as [|af0 afs0]; [contradiction|].
    rewrite payload_loop_ok by (intros af Ha; apply Hv; [exact Ha|left; reflexivity]).
    rewrite IH; [|exact Hne|intros af f' Ha Hf; apply Hv; [exact Ha|right; exact Hf]].
    unfold expected_stream; cbn [map concat]. unfold field_count, field_width.
    rewrite <- !app_assoc. replace (0 + zsum (map (fun af => prod (c_shape (col_of f af))) (af0 :: afs0)))
      with (zsum (map (fun af => prod (c_shape (col_of f af))) (af0 :: afs0))) by lia.
    reflexivity.
Qed.

Lemma opened_somes afs : opened (map Some afs) = afs.
Proof. induction afs as [|a t IH]; cbn; [reflexivity|rewrite IH; reflexivity]. Qed.

Lemma no_none_somes (afs : list file) : existsb is_none (map Some afs) = false.
Proof. induction afs as [|a t IH]; cbn; [reflexivity|exact IH]. Qed.

Lemma validate_ok afs fields : valid afs fields -> validate (map Some afs) fields = Ok afs.
Proof.
  intros Hv. unfold validate. rewrite no_none_somes. rewrite opened_somes.
  destruct (existsb _ afs) eqn:E; [|reflexivity].
  apply existsb_exists in E. destruct E as (af & Ha & E). apply existsb_exists in E. destruct E as (f & Hf & E).
  exfalso. apply (Hv af f Ha Hf). destruct (lookup f af); [discriminate|reflexivity].
Qed.

Lemma emit_correct_lemma afs fields :
  afs <> [] -> valid afs fields ->
  unpack_to_pipe false (map Some afs) fields = (expected_stream afs fields, Ok tt).
Proof.
  intros Hne Hv. unfold unpack_to_pipe. rewrite validate_ok by exact Hv.
  rewrite io_loop_ok by assumption. reflexivity.
Qed.

Lemma input_ok_valid afs fields : input_ok afs fields = true -> afs <> [] /\ valid afs fields.
Proof.
  unfold input_ok. intros H. apply andb_true_iff in H. destruct H as [H H3]. apply andb_true_iff in H. destruct H as [H1 H2].
  split.
  - destruct afs; [discriminate|discriminate].
  - intros af f Ha Hf E. rewrite forallb_forall in H2. specialize (H2 af Ha). unfold has_all in H2.
    rewrite forallb_forall in H2. specialize (H2 f Hf). rewrite E in H2. discriminate.
Qed.

Lemma input_ok_field afs fields f :
  input_ok afs fields = true -> In f fields ->
  0 <= field_count afs f < 9223372036854775808 /\ 0 <= field_width afs f < 2147483648 /\
  len (field_data afs f) = field_count afs f * field_width afs f.
Proof.
  unfold input_ok. intros H Hf. apply andb_true_iff in H. destruct H as [H H3]. apply andb_true_iff in H. destruct H as [H1 H2].
  rewrite forallb_forall in H3. specialize (H3 f Hf).
  apply andb_true_iff in H3. destruct H3 as [H3 Hc]. apply andb_true_iff in H3. destruct H3 as [Hok Hsw].
  rewrite forallb_forall in Hok. unfold same_width in Hsw. rewrite forallb_forall in Hsw.
  destruct (data_len afs f (field_width afs f)) as [Hl Hn].
  { intros af Ha. split; [apply Hok; exact Ha|]. specialize (Hsw af Ha). lia. }
  unfold field_data, field_count in *. split; [lia|]. split; [|exact Hl].
  destruct afs as [|a0 t]; [discriminate|].
  assert (Hin : In (last (a0 :: t) []) (a0 :: t)).
  { destruct (exists_last (l := a0 :: t) ltac:(discriminate)) as (l' & x & E). rewrite E. rewrite last_last.
    apply in_or_app. right. left. reflexivity. }
  specialize (Hok _ Hin). apply col_ok_facts in Hok. unfold field_width. lia.
Qed.

Lemma client_reads_expected afs fields : forall (all : list Z) rest,
  input_ok afs all = true -> (forall f, In f fields -> In f all) ->
  client_read (length fields) (expected_stream afs fields ++ rest) = Some (map (expected_record afs) fields, rest).
Proof.
  induction fields as [|f t IH]; intros all rest Hok Hsub; cbn [length client_read map].
  - reflexivity.
  - destruct (input_ok_field afs all f Hok (Hsub f (or_introl eq_refl))) as (Hc & Hw & Hl).
    unfold expected_stream; cbn [map concat]. fold (expected_stream afs t).
    rewrite <- !app_assoc.
    rewrite read_record_frame by lia.
    rewrite (IH all rest Hok) by (intros; apply Hsub; right; assumption).
    reflexivity.
Qed.

Lemma emit_parses_lemma afs fields :
  input_ok afs fields = true ->
  exists out,
    unpack_to_pipe false (map Some afs) fields = (out, Ok tt) /\
    client_read (length fields) out = Some (map (expected_record afs) fields, []) /\
    Forall (fun r => r_count r * r_width r = len (r_data r)) (map (expected_record afs) fields).
Proof.
  intros Hok. destruct (input_ok_valid afs fields Hok) as [Hne Hv].
  exists (expected_stream afs fields). split; [apply emit_correct_lemma; assumption|]. split.
  - rewrite <- (app_nil_r (expected_stream afs fields)) at 1.
    apply (client_reads_expected afs fields fields []); [exact Hok|auto].
  - apply Forall_forall. intros r Hr. apply in_map_iff in Hr. destruct Hr as (f & <- & Hf).
    destruct (input_ok_field afs fields f Hok Hf) as (_ & _ & Hl). cbn. lia.
Qed.

Lemma expected_stream_len afs fields :
  len (expected_stream afs fields) = zsum (map (fun f => 12 + len (field_data afs f)) fields).
Proof.
  induction fields as [|f t IH]; [reflexivity|].
  unfold expected_stream in *; cbn [map concat zsum fold_right]. rewrite !len_app, IH, !len_le_encode.
  unfold zsum. lia.
Qed.

Lemma emit_length_lemma afs fields out r :
  afs <> [] -> valid afs fields ->
  unpack_to_pipe false (map Some afs) fields = (out, r) ->
  len out = zsum (map (fun f => 12 + len (field_data afs f)) fields).
Proof.
  intros Hne Hv H. rewrite emit_correct_lemma in H by assumption. inversion H; subst.
  apply expected_stream_len.
Qed.

(* ------------------------------------------------------------------ invalid input *)
Lemma missing_file_lemma files fields :
  In None files -> unpack_to_pipe false files fields = ([], Raise OtherError).
Proof.
  intros H. unfold unpack_to_pipe, validate.
  replace (existsb is_none files) with true; [reflexivity|].
  symmetry. apply existsb_exists. exists None. split; [exact H|reflexivity].
Qed.

Lemma missing_field_lemma afs fields af f :
  In af afs -> In f fields -> lookup f af = None ->
  unpack_to_pipe false (map Some afs) fields = ([], Raise ValueError).
Proof.
  intros Ha Hf E. unfold unpack_to_pipe, validate. rewrite no_none_somes, opened_somes.
  replace (existsb (fun af0 => existsb (fun f0 => is_none (lookup f0 af0)) fields) afs) with true; [reflexivity|].
  symmetry. apply existsb_exists. exists af. split; [exact Ha|].
  apply existsb_exists. exists f. split; [exact Hf|]. rewrite E. reflexivity.
Qed.

Lemma tty_lemma files fields : unpack_to_pipe true files fields = ([], Raise OtherError).
Proof. reflexivity. Qed.
