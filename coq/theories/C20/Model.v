(* C20/Model.v — hand-written executable model of abacusnbody/data/pipe_asdf.py : unpack_to_pipe, statement by
   statement.  No proofs here.  Tie: correspondence run (tools/harness/c20.py) against the real function writing into
   a real OS pipe, on synthetic ASDF files.

   * a file argument is [None] (os.path.isfile false) or the mapping af.tree[data_key]: field id -> column;
   * a column is its shape, its dtype.itemsize and its raw bytes in C order (what `pipe.write(arr)` copies);
   * the result is (bytes written to the pipe so far, outcome), so that "an error before any byte is written" is
     expressible; FileNotFoundError / RuntimeError / UnboundLocalError are class OtherError;
   * np.int64 / np.int32 scalars are written in native byte order: little-endian (assumption on the host);
   * not modelled: 0-d arrays (np.prod(()) is the float 1.0 and the count would be written as a float64), int64
     overflow of the count, non-contiguous arrays, asdf.open failures on corrupt files, fields=None, the timing
     report on stderr, gc. *)
From Coq Require Import ZArith List Bool Lia Strings.Byte.
From Abacus.Common Require Import Arr.
From Abacus.C20 Require Import Spec.
Import ListNotations.
Local Open Scope Z_scope.

Record col := mkCol { c_shape : list Z; c_width : Z; c_bytes : list byte }.
Definition file := list (Z * col).

Fixpoint lookup (f : Z) (af : file) : option col :=
  match af with
  | [] => None
  | (k, c) :: t => if k =? f then Some c else lookup f t
  end.

(* np.prod(shape) *)
Definition prod (shape : list Z) : Z := fold_left Z.mul shape 1.

Definition is_none {A} (o : option A) : bool := match o with None => true | Some _ => false end.

Fixpoint opened (files : list (option file)) : list file :=
  match files with
  | [] => []
  | Some af :: t => af :: opened t
  | None :: t => opened t
  end.

(* begin input validation and header reads *)
Definition validate (files : list (option file)) (fields : list Z) : res (list file) :=
  (* for fn in asdf_fns: if not isfile(fn): raise FileNotFoundError(fn) *)
  if existsb is_none files then Raise OtherError
  else
    let afs := opened files in
    (* for af in afs: for field in fields: if field not in af.tree[data_key]: raise ValueError *)
    if existsb (fun af => existsb (fun f => is_none (lookup f af)) fields) afs then Raise ValueError
    else Ok afs.

(*  for af in afs: _N = np.prod(af[data_key][field].shape); N += _N; field_width = np.int32(...itemsize)  *)
Fixpoint count_loop (afs : list file) (f : Z) (N : Z) (w : option Z) : res (Z * option Z) :=
  match afs with
  | [] => Ok (N, w)
  | af :: t =>
      match lookup f af with
      | None => Raise KeyError
      | Some c => count_loop t f (N + prod (c_shape c)) (Some (c_width c))
      end
  end.

(*  for af in afs: arr = af[data_key][field][:]; pipe.write(arr)  *)
Fixpoint payload_loop (afs : list file) (f : Z) (out : list byte) : list byte * res unit :=
  match afs with
  | [] => (out, Ok tt)
  | af :: t =>
      match lookup f af with
      | None => (out, Raise KeyError)
      | Some c => payload_loop t f (out ++ c_bytes c)
      end
  end.

(* begin IO loop:  for field in fields: ...   ([w]: the function-local field_width, unbound = None) *)
Fixpoint io_loop (afs : list file) (fields : list Z) (w : option Z) (out : list byte) : list byte * res unit :=
  match fields with
  | [] => (out, Ok tt)
  | f :: t =>
      match count_loop afs f 0 w with
      | Ok (N, w') =>
          let out1 := out ++ le_encode 8 N in                 (* pipe.write(N) *)
          match w' with
          | None => (out1, Raise OtherError)                   (* UnboundLocalError: no input file *)
          | Some wv =>
              let out2 := out1 ++ le_encode 4 wv in            (* pipe.write(field_width) *)
              match payload_loop afs f out2 with
              | (out3, Ok _) => io_loop afs t w' out3
              | (out3, e) => (out3, e)
              end
          end
      | Oob => (out, Oob)
      | Raise e => (out, Raise e)
      end
  end.

Definition unpack_to_pipe (isatty : bool) (files : list (option file)) (fields : list Z) : list byte * res unit :=
  if isatty then ([], Raise OtherError)                        (* RuntimeError *)
  else
    match validate files fields with
    | Ok afs => io_loop afs fields None []
    | Oob => ([], Oob)
    | Raise e => ([], Raise e)
    end.
