(* C20/Run.v — executable glue for the correspondence check (no theorem depends on it). *)
From Coq Require Import ZArith List Bool Strings.Byte.
From Abacus.Common Require Import Arr Corr.
From Abacus.C20 Require Import Spec Model Expect.
Import ListNotations.
Local Open Scope Z_scope.

Definition bytes_of (l : list Z) : list byte := map byte_of_Z l.
Definition zs_of (l : list byte) : list Z := map bval l.

Definition zcol := (list Z * Z * list Z)%type.
Definition zfile := list (Z * zcol).
Definition case := (bool * list (option zfile) * list Z)%type.

Definition mk_file (zf : zfile) : file := map (fun '(k, (sh, w, b)) => (k, mkCol sh w (bytes_of b))) zf.
Definition mk_files (l : list (option zfile)) : list (option file) := map (option_map mk_file) l.

Definition run (c : case) : val :=
  let '(isatty, files, fields) := c in
  let '(out, r) := unpack_to_pipe isatty (mk_files files) fields in
  VL [vlistZ (zs_of out); match r with Ok _ => VNone | Oob => VOob | Raise e => VRaise e end].

Fixpoint zlist_eqb (a b : list Z) : bool :=
  match a, b with
  | [], [] => true
  | x :: a', y :: b' => (x =? y) && zlist_eqb a' b'
  | _, _ => false
  end.

Definition record_eqb (a b : record) : bool :=
  (r_count a =? r_count b) && (r_width a =? r_width b) && zlist_eqb (zs_of (r_data a)) (zs_of (r_data b)).

Fixpoint records_eqb (a b : list record) : bool :=
  match a, b with
  | [], [] => true
  | x :: a', y :: b' => record_eqb x y && records_eqb a' b'
  | _, _ => false
  end.

(* the property on the model: with well-formed input the client recovers the expected records and nothing is left
   over; a missing file or field is an error with nothing written (inputs outside the hypotheses hold vacuously) *)
Definition holds (c : case) : bool :=
  let '(isatty, files, fields) := c in
  let fs := mk_files files in
  let '(out, r) := unpack_to_pipe isatty fs fields in
  if isatty then true
  else if existsb is_none fs then (match r with Raise OtherError => true | _ => false end) && (len out =? 0)
  else
    let afs := opened fs in
    if negb (forallb (has_all fields) afs) then (match r with Raise ValueError => true | _ => false end) && (len out =? 0)
    else if input_ok afs fields then
      match r, client_read (length fields) out with
      | Ok _, Some (rs, []) => records_eqb rs (map (expected_record afs) fields)
      | _, _ => false
      end
    else true.
