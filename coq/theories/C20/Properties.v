(* placeholder while the harness is being brought up *)
From Abacus.C20 Require Import Spec Model.
