(* C20/Properties.v — the property theorems about the model of pipe_asdf.unpack_to_pipe (Model.v, tied to the code
   by the correspondence run).  Statements only.

   [unpack_to_pipe isatty files fields] = (bytes written to the pipe, outcome).  A file argument is [None] when the
   path is not a file, else [Some af] with af the data mapping field id -> column (shape, item width, raw bytes).
   [expected_stream], [expected_record], [field_count/width/data] (Expect.v) state the property directly on the
   input files; [client_read n] (Spec.v) is a client that requested n fields and reads int64, int32, count*width bytes
   n times.  [input_ok afs fields]: at least one file, every file has every requested field, every column is an array
   (|bytes| = prod(shape) * itemsize, dims >= 0, 0 <= itemsize < 2^31), the files agree on the item width of each
   requested field, the total count is < 2^63. *)
From Coq Require Import ZArith List Strings.Byte.
From Abacus.Common Require Import Arr.
From Abacus.C20 Require Import Spec Model Expect Lib Proofs.
Import ListNotations.
Local Open Scope Z_scope.

(* Little-endian encode/decode round trips for the two header integers. *)
Theorem le64_decode_encode : forall n, 0 <= n < 18446744073709551616 -> le_decode (le_encode 8 n) = n.
Proof. exact le64_roundtrip. Qed.
Print Assumptions le64_decode_encode.

Theorem le32_decode_encode : forall n, 0 <= n < 4294967296 -> le_decode (le_encode 4 n) = n.
Proof. exact le32_roundtrip. Qed.
Print Assumptions le32_decode_encode.

(* ★ What is written: for any number of existing files (>= 1) and any request list whose fields all files have, the
   pipe receives exactly, per requested field in request order,
   le64(sum over files of prod(shape)) ++ le32(item width) ++ concatenation over files in argument order of the raw
   bytes — nothing else, and the call succeeds.  No assumption on shapes (empty columns, any rank >= 0). *)
Theorem emit_correct : forall afs fields,
  afs <> [] -> valid afs fields ->
  unpack_to_pipe false (map Some afs) fields = (expected_stream afs fields, Ok tt).
Proof. exact emit_correct_lemma. Qed.
Print Assumptions emit_correct.

(* ★ The client's view: reading (int64 count, int32 width, count*width bytes) once per requested field recovers, in
   request order, exactly the records (total element count, item width, concatenated raw bytes), count*width is the
   number of data bytes of each record, and no byte is left over. *)
Theorem emit_parses : forall afs fields,
  input_ok afs fields = true ->
  exists out,
    unpack_to_pipe false (map Some afs) fields = (out, Ok tt) /\
    client_read (length fields) out = Some (map (expected_record afs) fields, []) /\
    Forall (fun r => r_count r * r_width r = len (r_data r)) (map (expected_record afs) fields).
Proof. exact emit_parses_lemma. Qed.
Print Assumptions emit_parses.

(* ★ Total length: 12 header bytes per requested field plus the data bytes. *)
Theorem emit_length : forall afs fields out r,
  afs <> [] -> valid afs fields ->
  unpack_to_pipe false (map Some afs) fields = (out, r) ->
  len out = zsum (map (fun f => 12 + len (field_data afs f)) fields).
Proof. exact emit_length_lemma. Qed.
Print Assumptions emit_length.

(* ★ A missing file is reported (FileNotFoundError class) before any byte is written — whatever else is wrong. *)
Theorem missing_file_writes_nothing : forall files fields,
  In None files -> unpack_to_pipe false files fields = ([], Raise OtherError).
Proof. exact missing_file_lemma. Qed.
Print Assumptions missing_file_writes_nothing.

(* ★ All files exist but some file lacks some requested field: ValueError before any byte is written. *)
Theorem missing_field_writes_nothing : forall afs fields af f,
  In af afs -> In f fields -> lookup f af = None ->
  unpack_to_pipe false (map Some afs) fields = ([], Raise ValueError).
Proof. exact missing_field_lemma. Qed.
Print Assumptions missing_field_writes_nothing.

(* A terminal is refused before anything else. *)
Theorem tty_writes_nothing : forall files fields, unpack_to_pipe true files fields = ([], Raise OtherError).
Proof. exact tty_lemma. Qed.
Print Assumptions tty_writes_nothing.
