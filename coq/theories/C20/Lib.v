(* C20/Lib.v — bytes, little-endian words, take/drop. *)
From Coq Require Import ZArith List Bool Lia Strings.Byte ZifyBool.
From Abacus.Common Require Import Arr.
From Abacus.C20 Require Import Spec.
Import ListNotations.
Local Open Scope Z_scope.
Ltac Zify.zify_post_hook ::= Z.to_euclidean_division_equations.

Lemma bval_range b : 0 <= bval b < 256.
Proof. unfold bval. pose proof (Byte.to_N_bounded b) as H. lia. Qed.

Lemma bval_byte_of_Z z : bval (byte_of_Z z) = z mod 256.
Proof.
  unfold bval, byte_of_Z.
  assert (Hm : 0 <= z mod 256 < 256) by (apply Z.mod_pos_bound; lia).
  destruct (Byte.of_N (Z.to_N (z mod 256))) eqn:E.
  - apply Byte.to_of_N in E. rewrite E. rewrite Z2N.id; lia.
  - apply Byte.of_N_None_iff in E. lia.
Qed.

Lemma len_le_encode k : forall n, len (le_encode k n) = Z.of_nat k.
Proof.
  induction k as [|k IH]; intros n; cbn [le_encode]; [reflexivity|].
  rewrite len_cons, IH. lia.
Qed.

(* the two round-trip lemmas (8- and 4-byte integers) are instances *)
Lemma le_decode_encode k : forall n, 0 <= n < 256 ^ Z.of_nat k -> le_decode (le_encode k n) = n.
Proof.
  induction k as [|k IH]; intros n H; cbn [le_encode le_decode].
  - cbn in H. lia.
  - rewrite bval_byte_of_Z. rewrite IH.
    + lia.
    + rewrite Nat2Z.inj_succ, Z.pow_succ_r in H by lia. lia.
Qed.

Lemma le64_roundtrip n : 0 <= n < 18446744073709551616 -> le_decode (le_encode 8 n) = n.
Proof. intros H. apply le_decode_encode. exact H. Qed.

Lemma le32_roundtrip n : 0 <= n < 4294967296 -> le_decode (le_encode 4 n) = n.
Proof. intros H. apply le_decode_encode. exact H. Qed.

Lemma take_app_exact {A} (a b : list A) n : n = len a -> take n (a ++ b) = a.
Proof.
  intros ->. unfold take, len. rewrite Nat2Z.id. rewrite firstn_app, Nat.sub_diag, firstn_all. cbn. apply app_nil_r.
Qed.

Lemma drop_app_exact {A} (a b : list A) n : n = len a -> drop n (a ++ b) = b.
Proof.
  intros ->. unfold drop, len. rewrite Nat2Z.id. rewrite skipn_app, Nat.sub_diag, skipn_all. reflexivity.
Qed.
