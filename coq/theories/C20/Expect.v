(* C20/Expect.v — what the property says the pipe must carry, per requested field, stated directly on the input
   files (independent of the writer's loops).  Definitions only. *)
From Coq Require Import ZArith List Bool Lia Strings.Byte.
From Abacus.Common Require Import Arr.
From Abacus.C20 Require Import Spec Model.
Import ListNotations.
Local Open Scope Z_scope.

Definition col_of (f : Z) (af : file) : col :=
  match lookup f af with Some c => c | None => mkCol [] 0 [] end.

Definition zsum (l : list Z) : Z := fold_right Z.add 0 l.

(* total number of elements of field f over the files, in argument order *)
Definition field_count (afs : list file) (f : Z) : Z := zsum (map (fun af => prod (c_shape (col_of f af))) afs).
(* the item width announced for field f: that of the (last) file *)
Definition field_width (afs : list file) (f : Z) : Z := c_width (col_of f (last afs [])).
(* the concatenation over the files, in argument order, of the field's raw bytes *)
Definition field_data (afs : list file) (f : Z) : list byte := concat (map (fun af => c_bytes (col_of f af)) afs).

Definition expected_record (afs : list file) (f : Z) : record :=
  mkRec (field_count afs f) (field_width afs f) (field_data afs f).

Definition expected_stream (afs : list file) (fields : list Z) : list byte :=
  concat (map (fun f => le_encode 8 (field_count afs f) ++ le_encode 4 (field_width afs f) ++ field_data afs f) fields).

(* --- hypotheses of the theorems, as booleans so that the harness can evaluate them too --- *)
Definition has_all (fields : list Z) (af : file) : bool := forallb (fun f => negb (is_none (lookup f af))) fields.

(* a column really is an array: |bytes| = prod(shape) * itemsize, non-negative dimensions, 0 <= itemsize < 2^31 *)
Definition col_ok (c : col) : bool :=
  (len (c_bytes c) =? prod (c_shape c) * c_width c) && forallb (fun d => 0 <=? d) (c_shape c)
  && (0 <=? c_width c) && (c_width c <? 2147483648).

(* every file stores the field with the same item width (same dtype size), as files of one data product do *)
Definition same_width (afs : list file) (f : Z) : bool :=
  forallb (fun af => c_width (col_of f af) =? field_width afs f) afs.

Definition input_ok (afs : list file) (fields : list Z) : bool :=
  negb (is_none (hd_error afs)) &&
  forallb (has_all fields) afs &&
  forallb (fun f => forallb (fun af => col_ok (col_of f af)) afs && same_width afs f
                    && (field_count afs f <? 9223372036854775808)) fields.
