(* C20/Examples.v — non-vacuity of the hypotheses and regression values. *)
From Coq Require Import ZArith List Lia Strings.Byte.
From Abacus.Common Require Import Arr Corr.
From Abacus.C20 Require Import Spec Model Expect Lib Proofs Run.
Import ListNotations.
Local Open Scope Z_scope.

(* two files; field 0: (n,3) float32-like (width 4), field 2: 1-D int64-like (width 8), field 5: empty (0,3) column *)
Definition fileA : file := mk_file [(0, ([2; 3], 4, map Z.of_nat (seq 0 24))); (2, ([2], 8, map Z.of_nat (seq 100 16)));
                                    (5, ([0; 3], 4, []))].
Definition fileB : file := mk_file [(2, ([1], 8, map Z.of_nat (seq 200 8))); (5, ([0; 3], 4, []));
                                    (0, ([1; 3], 4, map Z.of_nat (seq 50 12)))].

Example input_ok_nonvacuous : input_ok [fileA; fileB] [2; 0; 5; 2] = true.
Proof. vm_compute. reflexivity. Qed.

Example valid_nonvacuous : [fileA; fileB] <> [] /\ valid [fileA; fileB] [2; 0].
Proof.
  split; [discriminate|]. intros af f [<-|[<-|[]]] [<-|[<-|[]]]; vm_compute; discriminate.
Qed.

Example writer_example :
  let '(out, r) := unpack_to_pipe false [Some fileA; Some fileB] [2; 0] in
  (zs_of (firstn 12 out), len out, r) = ([3; 0; 0; 0; 0; 0; 0; 0; 8; 0; 0; 0], 12 + 24 + 12 + 36, Ok tt).
Proof. vm_compute. reflexivity. Qed.

Example client_example :
  option_map (fun '(rs, rest) => (map (fun r => (r_count r, r_width r, len (r_data r))) rs, rest))
             (client_read 3 (fst (unpack_to_pipe false [Some fileA; Some fileB] [2; 0; 5])))
  = Some ([(3, 8, 24); (9, 4, 36); (0, 4, 0)], []).
Proof. vm_compute. reflexivity. Qed.

Example missing_file_hyp : In None [Some fileA; None].
Proof. right; left; reflexivity. Qed.
Example missing_file_example : unpack_to_pipe false [Some fileA; None] [2; 7] = ([], Raise OtherError).
Proof. vm_compute. reflexivity. Qed.
Example missing_field_hyp : In fileB [fileA; fileB] /\ In 7 [2; 7] /\ lookup 7 fileB = None.
Proof. repeat split; [right; left; reflexivity|right; left; reflexivity]. Qed.
Example missing_field_example : unpack_to_pipe false [Some fileA; Some fileB] [2; 7] = ([], Raise ValueError).
Proof. vm_compute. reflexivity. Qed.
(* outside the documented CLI: no input file -> the count is written, then field_width is unbound *)
Example zero_files_example : unpack_to_pipe false [] [2] = (le_encode 8 0, Raise OtherError).
Proof. vm_compute. reflexivity. Qed.
Example le_examples : zs_of (le_encode 4 258) = [2; 1; 0; 0] /\ le_decode (le_encode 8 1234567890123) = 1234567890123.
Proof. vm_compute. split; reflexivity. Qed.
Example le_hyps : 0 <= 1234567890123 < 18446744073709551616 /\ 0 <= 258 < 4294967296.
Proof. lia. Qed.
