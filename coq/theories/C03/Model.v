(* C03/Model.v — executable model of the file-list branch of CompaSOHaloCatalog._setup_file_paths (no proofs here).
   The loading itself (per-file compaction with filter_func, N_halo_per_file, halo_file_offsets) is modelled in
   Abacus.C01.Model (read_files / read_halo_info / load_files), shared with C01.

   A halo_info file path  <groupdir>/halo_info/halo_info_NNN.asdf  is abstracted to the pair
   (identity of p.parents[1] = the catalog's redshift directory, NNN = int(stem.split('_')[-1])); two paths are equal
   iff both components are (Path equality after .absolute()). *)
From Coq Require Import ZArith List Bool.
From Abacus.Common Require Import Arr.
Import ListNotations.
Local Open Scope Z_scope.

Definition fpath := (Z * Z)%type.

Definition fpath_eqb (p q : fpath) : bool := (fst p =? fst q) && (snd p =? snd q).

(* for i, p in enumerate(path): for j, q in enumerate(path[i+1:]): if p == q: raise ValueError *)
Fixpoint has_dup (paths : list fpath) : bool :=
  match paths with
  | [] => false
  | p :: t => existsb (fpath_eqb p) t || has_dup t
  end.

(* returns (groupdir, superslab_inds); halo_fns = path (argument order) *)
Definition setup_file_list (paths : list fpath) : res (Z * list Z) :=
  match paths with
  | [] => Raise OtherError                                         (* path[0]: IndexError before anything else *)
  | p0 :: _ =>
      let groupdir := fst p0 in                                    (* groupdir = path[0].parents[1] *)
      if existsb (fun p => negb (fst p =? groupdir)) paths
      then Raise ValueError                                        (* Can't mix files from different catalogs! *)
      else if has_dup paths then Raise ValueError                  (* Cannot pass duplicate halo_info files! *)
      else Ok (groupdir, map snd paths)                            (* int(hfn.stem.split('_')[-1]) for hfn in halo_fns *)
  end.
