(* C03/Proofs.v — concatenation over superslab files and commutation with filter_func, from the C01 development. *)
From Coq Require Import ZArith List Bool Lia.
From Abacus.Common Require Import Arr.
From Abacus.C01 Require Import Model Spec Lib ProofsRead Proofs.
From Abacus.C03 Require Import Model Spec.
Import ListNotations.
Local Open Scope Z_scope.

Lemma nth_error_ext {A} (l1 l2 : list A) : (forall n, nth_error l1 n = nth_error l2 n) -> l1 = l2.
Proof.
  revert l2; induction l1 as [|a t IH]; intros [|b t2] H; try reflexivity.
  - specialize (H O). discriminate.
  - specialize (H O). discriminate.
  - pose proof (H O) as H0. cbn in H0. inversion H0; subst. f_equal. apply IH. intros n. exact (H (S n)).
Qed.

Section View.
Context {P Q : Type}.
Variable dec : P -> Q.
Variable cleaned passthrough : bool.
Variable l : list ab.

(* what a loaded row must show, from the catalog alone: (id, visible N, own block per loaded subsample) *)
Definition row_spec (s : slab P) (r : hrow) : Z * Z * list (list (option Q)) :=
  (hid r, hN (present cleaned passthrough r), map (fun x => map Some (map dec (block cleaned x s r))) l).

Definition spec_view (filt : option filter) (cat : list (slab P)) : list (Z * Z * list (list (option Q))) :=
  flat_map (fun s => map (row_spec s) (kept cleaned passthrough filt s)) cat.

Lemma spec_view_nth filt : forall (cat : list (slab P)) g r,
  nth_error (spec_rows cleaned passthrough filt cat) g = Some r ->
  nth_error (spec_view filt cat) g
  = Some (hid r, hN (present cleaned passthrough r),
          map (fun x => map Some (map dec (block_of cleaned passthrough filt x cat g))) l).
Proof.
  unfold spec_rows, spec_view. induction cat as [|s t IH]; intros g r Hn; [destruct g; discriminate|].
  cbn [flat_map] in *.
  destruct (Nat.ltb_spec g (length (kept cleaned passthrough filt s))) as [Hlt|Hge].
  - rewrite nth_error_app1 in Hn by exact Hlt. rewrite nth_error_app1 by (rewrite map_length; exact Hlt).
    rewrite nth_error_map, Hn. cbn [option_map]. unfold row_spec. do 2 f_equal. apply map_ext. intros x.
    do 2 f_equal. unfold block_of, cat_blocks. cbn [flat_map].
    rewrite app_nth1 by (unfold slab_blocks; rewrite map_length; exact Hlt).
    unfold slab_blocks. rewrite (nth_indep _ [] (block cleaned x s r)) by (rewrite map_length; exact Hlt).
    rewrite map_nth. f_equal. symmetry. apply nth_error_nth. exact Hn.
  - rewrite nth_error_app2 in Hn by exact Hge. rewrite nth_error_app2 by (rewrite map_length; exact Hge).
    rewrite map_length. rewrite (IH _ _ Hn). do 2 f_equal. apply map_ext. intros x. do 2 f_equal.
    unfold block_of, cat_blocks. cbn [flat_map].
    rewrite app_nth2 by (unfold slab_blocks; rewrite map_length; lia).
    unfold slab_blocks at 2. rewrite map_length. reflexivity.
Qed.

Lemma spec_view_length filt (cat : list (slab P)) :
  length (spec_view filt cat) = length (spec_rows cleaned passthrough filt cat).
Proof.
  unfold spec_view, spec_rows. induction cat as [|s t IH]; [reflexivity|].
  cbn [flat_map]. rewrite !app_length, map_length, IH. reflexivity.
Qed.

(* the view of a load is determined row by row by the catalog *)
Lemma view_load filt (cat : list (slab P)) garbage o :
  wf_catalog cleaned l cat -> filt_ok filt -> ab_ok l ->
  load dec cleaned passthrough filt l cat garbage = Ok o ->
  view l o = spec_view filt cat.
Proof.
  intros Hwf Hf Hab Hload. destruct o as [rows' subs]. unfold view. cbn [fst snd].
  destruct (index_columns_spec_lemma dec cleaned passthrough filt l cat garbage Hwf Hf Hab rows' subs Hload) as [Hlen Hrows].
  apply nth_error_ext. intros g.
  destruct (nth_error (spec_rows cleaned passthrough filt cat) g) as [r|] eqn:Er.
  - destruct (Hrows g r Er) as [r' [E' [H1 [H2 _]]]].
    rewrite nth_error_map, E'. cbn [option_map]. rewrite (spec_view_nth filt cat g r Er).
    unfold row_view. rewrite H1, H2. do 2 f_equal. apply map_ext_in. intros x Hx.
    apply (slice_is_own_particles_lemma dec cleaned passthrough filt l cat garbage Hwf Hf Hab rows' subs Hload g r' x Hx E').
  - apply nth_error_None in Er.
    assert (E1 : nth_error (map (row_view l subs) rows') g = None) by (apply nth_error_None; rewrite map_length; lia).
    assert (E2 : nth_error (spec_view filt cat) g = None) by (apply nth_error_None; rewrite spec_view_length; lia).
    congruence.
Qed.

Lemma spec_view_concat filt (cat : list (slab P)) :
  spec_view filt cat = flat_map (fun s => spec_view filt [s]) cat.
Proof.
  unfold spec_view. induction cat as [|s t IH]; [reflexivity|]. cbn [flat_map]. rewrite app_nil_r, IH. reflexivity.
Qed.

Lemma wf_single (cat : list (slab P)) s : wf_catalog cleaned l cat -> In s cat -> wf_catalog cleaned l [s].
Proof. intros H Hs x s' r Hx [<-|[]] Hr. apply H; assumption. Qed.

Lemma load_is_concat_of_files_lemma filt (cat : list (slab P)) garbage :
  wf_catalog cleaned l cat -> filt_ok filt -> ab_ok l ->
  exists o, load dec cleaned passthrough filt l cat garbage = Ok o /\
    forall os, Forall2 (fun s o_s => load dec cleaned passthrough filt l [s] garbage = Ok o_s) cat os ->
      view l o = concat (map (view l) os).
Proof.
  intros Hwf Hf Hab.
  destruct (zipper_refines_spec_lemma dec cleaned passthrough filt l cat garbage Hwf Hf Hab) as [rows' E].
  eexists. split; [exact E|]. intros os Hos.
  rewrite (view_load filt cat garbage _ Hwf Hf Hab E). rewrite spec_view_concat.
  clear E. induction Hos as [|s o_s cat' os' Hs Hrest IH]; [reflexivity|].
  cbn [flat_map map concat]. f_equal.
  - symmetry. apply (view_load filt [s] garbage o_s); try assumption. apply (wf_single (s :: cat')); [exact Hwf|left; reflexivity].
  - apply IH. intros x s' r Hx Hs' Hr. apply Hwf; try assumption. right. exact Hs'.
Qed.

(* single-file loads of a well-formed catalog succeed, so the Forall2 premise above is inhabited *)
Lemma single_loads_exist filt (cat : list (slab P)) garbage :
  wf_catalog cleaned l cat -> filt_ok filt -> ab_ok l ->
  exists os, Forall2 (fun s o_s => load dec cleaned passthrough filt l [s] garbage = Ok o_s) cat os.
Proof.
  intros Hwf Hf Hab. induction cat as [|s t IH]; [exists []; constructor|].
  destruct IH as [os Hos]; [intros x s' r Hx Hs' Hr; apply Hwf; try assumption; right; exact Hs'|].
  destruct (zipper_refines_spec_lemma dec cleaned passthrough filt l [s] garbage) as [rows' E]; try assumption.
  { apply (wf_single (s :: t)); [exact Hwf|left; reflexivity]. }
  eexists (_ :: os). constructor; [exact E|exact Hos].
Qed.

Lemma spec_view_filter (f : filter) (cat : list (slab P)) :
  filt_ok (Some f) ->
  spec_view (Some f) cat = mask_select (catalog_mask cleaned passthrough f cat) (spec_view None cat).
Proof.
  intros Hf. unfold spec_view, catalog_mask. induction cat as [|s t IH]; [reflexivity|].
  cbn [flat_map]. rewrite mask_select_app.
  - rewrite <- IH. f_equal. unfold kept, kept_rows, slab_mask. rewrite mask_select_map. reflexivity.
  - unfold slab_mask, kept, kept_rows. cbn in Hf. rewrite Hf, !map_length. reflexivity.
Qed.

Lemma filter_commutes_lemma (f : filter) (cat : list (slab P)) garbage :
  wf_catalog cleaned l cat -> filt_ok (Some f) -> ab_ok l ->
  exists o_f o_all,
    load dec cleaned passthrough (Some f) l cat garbage = Ok o_f /\
    load dec cleaned passthrough None l cat garbage = Ok o_all /\
    view l o_f = mask_select (catalog_mask cleaned passthrough f cat) (view l o_all).
Proof.
  intros Hwf Hf Hab.
  destruct (zipper_refines_spec_lemma dec cleaned passthrough (Some f) l cat garbage Hwf Hf Hab) as [r1 E1].
  destruct (zipper_refines_spec_lemma dec cleaned passthrough None l cat garbage Hwf I Hab) as [r2 E2].
  eexists; eexists. split; [exact E1|]. split; [exact E2|].
  rewrite (view_load (Some f) cat garbage _ Hwf Hf Hab E1), (view_load None cat garbage _ Hwf I Hab E2).
  apply spec_view_filter. exact Hf.
Qed.

End View.

Lemma filter_sees_N_lemma (P : Type) cleaned passthrough (f : filter) (s : slab P) r :
  kept cleaned passthrough (Some f) s = mask_select (f (map (present cleaned passthrough) (s_rows s))) (s_rows s) /\
  hN (present true false r) = ntot r /\ hN (present false passthrough r) = hN r /\ hN (present cleaned true r) = hN r.
Proof.
  split; [reflexivity|]. split; [reflexivity|]. split; [reflexivity|].
  unfold present. rewrite andb_false_r. reflexivity.
Qed.

(* ---- file list parsing ----------------------------------------------------------------------------------- *)

Lemma fpath_eqb_eq p q : fpath_eqb p q = true <-> p = q.
Proof.
  destruct p as [a b], q as [c d]. unfold fpath_eqb. cbn. rewrite andb_true_iff, !Z.eqb_eq. split.
  - intros [-> ->]. reflexivity.
  - intros H. inversion H. auto.
Qed.

Lemma has_dup_false_nodup paths : has_dup paths = false <-> NoDup paths.
Proof.
  induction paths as [|p t IH]; cbn [has_dup].
  - split; [constructor|reflexivity].
  - rewrite orb_false_iff, IH. split.
    + intros [He Hn]. constructor; [|exact Hn]. intros Hin.
      assert (existsb (fpath_eqb p) t = true); [|congruence].
      apply existsb_exists. exists p. split; [exact Hin|apply fpath_eqb_eq; reflexivity].
    + intros H. inversion H; subst. split; [|assumption].
      destruct (existsb (fpath_eqb p) t) eqn:E; [|reflexivity].
      apply existsb_exists in E. destruct E as [q [Hq Eq]]. apply fpath_eqb_eq in Eq. subst. contradiction.
Qed.

Lemma paths_rejects_mixed_lemma p0 rest :
  (exists p, In p (p0 :: rest) /\ fst p <> fst p0) -> setup_file_list (p0 :: rest) = Raise ValueError.
Proof.
  intros [p [Hin Hne]]. unfold setup_file_list.
  assert (E : existsb (fun p => negb (fst p =? fst p0)) (p0 :: rest) = true).
  { apply existsb_exists. exists p. split; [exact Hin|]. apply negb_true_iff. apply Z.eqb_neq. exact Hne. }
  rewrite E. reflexivity.
Qed.

Lemma paths_rejects_duplicates_lemma paths :
  paths <> [] -> ~ NoDup paths -> setup_file_list paths = Raise ValueError.
Proof.
  intros Hne Hd. destruct paths as [|p0 rest]; [congruence|]. unfold setup_file_list.
  destruct (existsb (fun p => negb (fst p =? fst p0)) (p0 :: rest)); [reflexivity|].
  destruct (has_dup (p0 :: rest)) eqn:E; [reflexivity|]. apply has_dup_false_nodup in E. contradiction.
Qed.

Lemma paths_accepts_lemma p0 rest :
  NoDup (p0 :: rest) -> (forall p, In p (p0 :: rest) -> fst p = fst p0) ->
  setup_file_list (p0 :: rest) = Ok (fst p0, map snd (p0 :: rest)).
Proof.
  intros Hn Hsame. unfold setup_file_list.
  assert (E : existsb (fun p => negb (fst p =? fst p0)) (p0 :: rest) = false).
  { destruct (existsb (fun p => negb (fst p =? fst p0)) (p0 :: rest)) eqn:E; [|reflexivity]. apply existsb_exists in E. destruct E as [p [Hin Hp]].
    apply negb_true_iff in Hp. apply Z.eqb_neq in Hp. exfalso. apply Hp. apply Hsame. exact Hin. }
  rewrite E. apply has_dup_false_nodup in Hn. rewrite Hn. reflexivity.
Qed.
