(* C03/Run.v — executable glue for the correspondence run of the file-list model (loads use Abacus.C01.Run). *)
From Coq Require Import ZArith List Bool.
From Abacus.Common Require Import Arr Corr.
From Abacus.C03 Require Import Model.
Import ListNotations.
Local Open Scope Z_scope.

Definition run_paths (paths : list (Z * Z)) : val :=
  vres (fun o => VL [VZ (fst o); vlistZ (snd o)]) (setup_file_list paths).
