(* C03/Findings.v — kernel-checked record of a defect found in the original _read_halo_info
   (repair: /verif/fixes/C03-lc-filter-rename.patch).

   Frozen copy of the offending fragment (compaso_halo_catalog.py, inside `if self.filter_func:`):

       if self.cleaned and not passthrough:
           halos.rename_column('N_total', 'N')

   `self.cleaned` is the *user-facing* flag, which the constructor forces to True for halo light cone catalogs, while the
   local `cleaned` (whether cleaning files are read, hence whether a column N_total exists at all) is forced to False
   for them.  So for a light-cone catalog every filter_func ends in KeyError('Column N_total does not exist'), before
   the filter is even called.  The repaired code tests the local `cleaned`; Abacus.C01.Model.read_files follows it. *)
From Coq Require Import ZArith List Bool.
From Abacus.Common Require Import Arr.
From Abacus.C01 Require Import Model Spec.
Import ListNotations.
Local Open Scope Z_scope.

(* rename_column('N_total', 'N') on a table that has (or has not) a column N_total *)
Definition rename_ntot (has_ntot : bool) (halos : list hrow) : res (list hrow) :=
  if has_ntot then Ok (map (fun r => set_N (ntot r) r) halos) else Raise KeyError.

(* the table handed to filter_func — ORIGINAL code: governed by self.cleaned *)
Definition filter_table_orig (self_cleaned cleaned passthrough : bool) (halos : list hrow) : res (list hrow) :=
  if self_cleaned && negb passthrough then rename_ntot cleaned halos else Ok halos.

(* REPAIRED code: governed by the local `cleaned` (this is what C01.Model.present computes) *)
Definition filter_table_fixed (cleaned passthrough : bool) (halos : list hrow) : res (list hrow) :=
  if cleaned && negb passthrough then rename_ntot cleaned halos else Ok halos.

(* how the constructor sets the flags: halo_lc forces cleaned := False, self.cleaned := True *)
Definition flags (user_cleaned halo_lc : bool) : bool * bool :=   (* (self.cleaned, cleaned) *)
  if halo_lc then (true, false) else (user_cleaned, user_cleaned).

(* "loading with a filter function yields exactly the rows ..." is false of the original for every light-cone
   catalog, every filter and every value of the user's `cleaned` argument: the load raises KeyError *)
Theorem lc_filter_orig_refuted : exists user_cleaned halos,
  let '(self_cleaned, cleaned) := flags user_cleaned true in
  filter_table_orig self_cleaned cleaned false halos = Raise KeyError.
Proof. exists true, [mkrow 700 88 0 4 0 0 0 0 0 0 0]. vm_compute. reflexivity. Qed.

Theorem lc_filter_orig_always_fails : forall user_cleaned halos,
  filter_table_orig (fst (flags user_cleaned true)) (snd (flags user_cleaned true)) false halos = Raise KeyError.
Proof. intros. reflexivity. Qed.

(* the repaired fragment never fails, agrees with the original on every non-light-cone load, and is the table the
   model shows to the filter *)
Theorem filter_table_fixed_ok : forall user_cleaned halo_lc passthrough halos,
  let cleaned := snd (flags user_cleaned halo_lc) in
  filter_table_fixed cleaned passthrough halos = Ok (map (present cleaned passthrough) halos).
Proof.
  intros uc lc pt halos. unfold filter_table_fixed, rename_ntot, present.
  destruct (snd (flags uc lc)); cbn [andb]; [|rewrite map_id; reflexivity].
  destruct pt; cbn [negb]; [rewrite map_id|]; reflexivity.
Qed.

Theorem filter_table_same_off_lightcone : forall user_cleaned passthrough halos,
  filter_table_orig (fst (flags user_cleaned false)) (snd (flags user_cleaned false)) passthrough halos
  = filter_table_fixed (snd (flags user_cleaned false)) passthrough halos.
Proof. intros. reflexivity. Qed.
