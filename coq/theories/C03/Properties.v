(* C03/Properties.v — superslab concatenation and filter_func commute with loading.
   About the loader model of Abacus.C01.Model (read_halo_info / load) and the file-list model of C03/Model.v.
   view l o = for every loaded row (id, visible N, [its slice of the subsample table for each loaded subsample]).
   Hypotheses as in C01: wf_catalog (read ranges inside their files), filt_ok (one mask entry per row), ab_ok. *)
From Coq Require Import ZArith List Bool.
From Abacus.Common Require Import Arr.
From Abacus.C01 Require Import Model Spec.
From Abacus.C03 Require Import Model Spec Proofs.
Import ListNotations.
Local Open Scope Z_scope.

(* Loading a list of superslab files gives the row-wise concatenation, in argument order, of loading each file on its
   own: halo rows and each halo's particle slices (for every filter, cleaned on/off, subsample selection, decoder). *)
Theorem load_is_concat_of_files :
  forall (P Q : Type) (dec : P -> Q) cleaned passthrough load_ab filt (cat : list (slab P)) garbage,
  wf_catalog cleaned load_ab cat -> filt_ok filt -> ab_ok load_ab ->
  exists o, load dec cleaned passthrough filt load_ab cat garbage = Ok o /\
    forall os, Forall2 (fun s o_s => load dec cleaned passthrough filt load_ab [s] garbage = Ok o_s) cat os ->
      view load_ab o = concat (map (view load_ab) os).
Proof. exact (@load_is_concat_of_files_lemma). Qed.
Print Assumptions load_is_concat_of_files.

(* ... and those single-file loads all succeed (the premise above is never vacuous). *)
Theorem single_file_loads_succeed :
  forall (P Q : Type) (dec : P -> Q) cleaned passthrough load_ab filt (cat : list (slab P)) garbage,
  wf_catalog cleaned load_ab cat -> filt_ok filt -> ab_ok load_ab ->
  exists os, Forall2 (fun s o_s => load dec cleaned passthrough filt load_ab [s] garbage = Ok o_s) cat os.
Proof. exact (@single_loads_exist). Qed.
Print Assumptions single_file_loads_succeed.

(* Loading with a filter function = applying the same per-superslab masks to the unfiltered load: the same rows, and
   for each kept row the same particles in its (re-indexed) slice.  Every mask, including all-false and all-true.
   (That the re-indexed slices are contiguous is C01.slices_tile applied to the filtered load.) *)
Theorem filter_commutes :
  forall (P Q : Type) (dec : P -> Q) cleaned passthrough load_ab (f : filter) (cat : list (slab P)) garbage,
  wf_catalog cleaned load_ab cat -> filt_ok (Some f) -> ab_ok load_ab ->
  exists o_f o_all,
    load dec cleaned passthrough (Some f) load_ab cat garbage = Ok o_f /\
    load dec cleaned passthrough None load_ab cat garbage = Ok o_all /\
    view load_ab o_f = mask_select (catalog_mask cleaned passthrough f cat) (view load_ab o_all).
Proof. exact (@filter_commutes_lemma). Qed.
Print Assumptions filter_commutes.

(* For cleaned catalogs outside passthrough mode the table shown to the filter carries the cleaned particle count
   under the name N (and the raw N otherwise); the mask of a superslab is the filter applied to that table. *)
Theorem filter_sees_N :
  forall (P : Type) cleaned passthrough (f : filter) (s : slab P) r,
  kept cleaned passthrough (Some f) s = mask_select (f (map (present cleaned passthrough) (s_rows s))) (s_rows s) /\
  hN (present true false r) = ntot r /\ hN (present false passthrough r) = hN r /\ hN (present cleaned true r) = hN r.
Proof. exact (@filter_sees_N_lemma). Qed.
Print Assumptions filter_sees_N.

(* File lists: files of different catalogs are rejected, duplicates are rejected, anything else is accepted with the
   superslab numbers in argument order. *)
Theorem paths_rejects_mixed : forall p0 rest,
  (exists p, In p (p0 :: rest) /\ fst p <> fst p0) -> setup_file_list (p0 :: rest) = Raise ValueError.
Proof. exact paths_rejects_mixed_lemma. Qed.
Print Assumptions paths_rejects_mixed.

Theorem paths_rejects_duplicates : forall paths,
  paths <> [] -> ~ NoDup paths -> setup_file_list paths = Raise ValueError.
Proof. exact paths_rejects_duplicates_lemma. Qed.
Print Assumptions paths_rejects_duplicates.

Theorem paths_accepts : forall p0 rest,
  NoDup (p0 :: rest) -> (forall p, In p (p0 :: rest) -> fst p = fst p0) ->
  setup_file_list (p0 :: rest) = Ok (fst p0, map snd (p0 :: rest)).
Proof. exact paths_accepts_lemma. Qed.
Print Assumptions paths_accepts.
