(* C03/Examples.v — non-vacuity and regression values (the catalog hypotheses are exemplified in C01/Examples.v). *)
From Coq Require Import ZArith List Bool.
From Abacus.Common Require Import Arr Corr.
From Abacus.C01 Require Import Model Spec Run Examples.
From Abacus.C03 Require Import Model Spec Run.
Import ListNotations.
Local Open Scope Z_scope.

(* the hypotheses of load_is_concat_of_files / filter_commutes hold for a non-trivial catalog and filter *)
Example hyp_wf : wf_catalog true [SA; SB] ex_cat.
Proof. exact hyp_wf_cleaned. Qed.
Example hyp_filt : filt_ok (interp (FNge 60)).
Proof. exact hyp_filt_ok_nge. Qed.

(* filter_commutes on the example: the mask of FNge 60 over the three superslabs, and both sides *)
Example ex_mask :
  match interp (FNge 60) with Some f => catalog_mask true false f ex_cat | None => [] end = [false; false; true; true].
Proof. vm_compute. reflexivity. Qed.

Example ex_filter_commutes :
  match interp (FNge 60), load (fun t : Z => t) true false (interp (FNge 60)) [SA; SB] ex_cat garbage,
        load (fun t : Z => t) true false None [SA; SB] ex_cat garbage with
  | Some f, Ok o_f, Ok o_all =>
      val_eqb (VL (map (fun v => VL [VZ (fst (fst v)); VZ (snd (fst v)); VL (map (fun s => VL (map (vopt VZ) s)) (snd v))])
                       (view [SA; SB] o_f)))
              (VL (map (fun v => VL [VZ (fst (fst v)); VZ (snd (fst v)); VL (map (fun s => VL (map (vopt VZ) s)) (snd v))])
                       (mask_select (catalog_mask true false f ex_cat) (view [SA; SB] o_all))))
      && Nat.eqb (length (view [SA; SB] o_f)) 2
  | _, _, _ => false
  end = true.
Proof. vm_compute. reflexivity. Qed.

(* file lists *)
Example hyp_mixed : exists p, In p [(1, 0); (2, 1)] /\ fst p <> fst (1, 0).
Proof. exists (2, 1). split; [right; left; reflexivity|discriminate]. Qed.
Example hyp_dup : ~ NoDup [(1, 0); (1, 2); (1, 0)].
Proof. intros H. inversion H; subst. apply H2. right. left. reflexivity. Qed.
Example hyp_accept : NoDup [(1, 2); (1, 0)] /\ forall p, In p [(1, 2); (1, 0)] -> fst p = fst (1, 2).
Proof. split; [repeat constructor; cbn; intuition discriminate|]. intros p [<-|[<-|[]]]; reflexivity. Qed.

Example ex_paths_order : run_paths [(1, 2); (1, 0); (1, 1)] = VL [VZ 1; vlistZ [2; 0; 1]].
Proof. vm_compute. reflexivity. Qed.
Example ex_paths_dup : run_paths [(1, 0); (1, 2); (1, 0)] = VRaise ValueError.
Proof. vm_compute. reflexivity. Qed.
Example ex_paths_mixed : run_paths [(1, 0); (2, 1)] = VRaise ValueError.
Proof. vm_compute. reflexivity. Qed.
