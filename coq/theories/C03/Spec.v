(* C03/Spec.v — the observable of a load used to state "concatenation" and "filter commutes": for every loaded row its
   identity, its visible N and, for each loaded subsample, the slice of the subsample table it indexes. *)
From Coq Require Import ZArith List Bool.
From Abacus.Common Require Import Arr.
From Abacus.C01 Require Import Model Spec.
Import ListNotations.
Local Open Scope Z_scope.

Definition row_view {Q} (l : list ab) (subs : list (option Q)) (r' : hrow) : Z * Z * list (list (option Q)) :=
  (hid r', hN r', map (fun x => row_slice x subs r') l).

(* halo rows and each halo's particle slice *)
Definition view {Q} (l : list ab) (o : list hrow * list (option Q)) : list (Z * Z * list (list (option Q))) :=
  map (row_view l (snd o)) (fst o).

(* the mask filter_func returns for one superslab file (it is shown the table with N = N_total when cleaned) *)
Definition slab_mask {P} (cleaned passthrough : bool) (f : filter) (s : slab P) : list bool :=
  f (map (present cleaned passthrough) (s_rows s)).

Definition catalog_mask {P} (cleaned passthrough : bool) (f : filter) (cat : list (slab P)) : list bool :=
  flat_map (slab_mask cleaned passthrough f) cat.
