(* C06/Findings.v — kernel-checked record of the memory-safety finding behind the side condition of
   `indices_in_bounds` (the finding belongs to property C11: "a one-cell-thick grid (the 2D case)").

   Frozen copies of the fragments of abacusnbody/analysis/tsc.py (_rightwrap, the per-axis index/weight computation of
   _tsc_scatter) and cic.py as generated from the original source; the deposit tables are the canonical ones
   (Proofs.canon_2d/canon_3d, to which the generated tables were equal).  Self-contained: it stays a valid record after a
   repair of the code.

   The right-wrap helper subtracts L at most once, so the index i+1 of the upper neighbour is in bounds only for
   i + 1 <= 2g - 1.  On an axis of one cell i can be 1 (any coordinate above half the box): index 1 on an axis of size 1. *)
From Coq Require Import ZArith QArith List Bool Lia.
From Abacus.Common Require Import Arr Num.
From Abacus.C06 Require Import Tab Arr3 Kernel1D Model Spec Arr3Facts Proofs.
Import ListNotations.
Local Open Scope Z_scope.

Definition rightwrap_orig (x L : Z) : Z := if (L <=? x) then (x - L) else x.

Definition tsc_axis_orig (pos offset box : Q) (g : Z) : axis1 :=
  let p := ((pos + offset) * (inject_Z g / box))%Q in
  let i := round_half_even p in
  let d := (inject_Z i - p)%Q in
  mk_axis1 p i d (rightwrap_orig (i - 1) g) (rightwrap_orig i g) (rightwrap_orig (i + 1) g)
    ((1 # 2) * ((1 # 2) + d) ^ 2)%Q ((3 # 4) - d ^ 2)%Q ((1 # 2) * ((1 # 2) - d) ^ 2)%Q.

Definition tsc_scatter1_orig (box offset : Q) (p : particle) (G : arr3 Q) : res (arr3 Q) :=
  let '(x, y, z, w) := p in
  deposit_rows (tsc_axis_orig x offset box (d0 G), tsc_axis_orig y offset box (d1 G), tsc_axis_orig z offset box (d2 G))
    w (canon_2d ++ canon_3d) G.

Definition cic_axis_orig (pos box : Q) (g : Z) : axis1 :=
  let p := ((pos / box) * inject_Z g)%Q in
  let i := round_half_even p in
  let d := (inject_Z i - p)%Q in
  mk_axis1 p i d (rightwrap_orig (i - 1) g) (rightwrap_orig i g) (rightwrap_orig (i + 1) g)
    (if Qltb 0 d then d else 0)%Q (1 - Qabs.Qabs d)%Q (if Qltb 0 d then 0 else - d)%Q.

Definition cic_scatter1_orig (box : Q) (p : particle) (G : arr3 Q) : res (arr3 Q) :=
  let '(x, y, z, w) := p in
  if negb (d2 G =? 1) then
    deposit_rows (cic_axis_orig x box (d0 G), cic_axis_orig y box (d1 G), cic_axis_orig z box (d2 G))
      w (canon_2d ++ canon_3d) G
  else deposit_rows (cic_axis_orig x box (d0 G), cic_axis_orig y box (d1 G), axis_2d 0 1) w canon_2d G.

(* the single conditional subtraction is in bounds (after numba's negative-index wrap) EXACTLY for -g <= x <= 2g-1 *)
Theorem rightwrap_orig_exact : forall x g, 0 < g ->
  (norm1 g (rightwrap_orig x g) <> None <-> - g <= x <= 2 * g - 1).
Proof.
  intros x g Hg. unfold rightwrap_orig. destruct (g <=? x) eqn:E.
  - split.
    + intros H. destruct (Z_le_gt_dec (2 * g) x) as [Hx|Hx]; [|lia].
      exfalso. apply H. apply norm1_none. lia.
    + intros H. rewrite norm1_pos by lia. discriminate.
  - split.
    + intros H. destruct (Z_lt_ge_dec x (- g)) as [Hx|Hx]; [|lia].
      exfalso. apply H. apply norm1_none. lia.
    + intros H. destruct (Z_lt_ge_dec x 0); [rewrite norm1_neg by lia|rewrite norm1_pos by lia]; discriminate.
Qed.

(* hence the three neighbour indices are all in bounds exactly when 1 - g <= i <= 2g - 2: the side condition i_ok of
   `indices_in_bounds` is not an artefact of the proof *)
Theorem i_ok_exact_orig : forall i g, 0 < g ->
  (norm1 g (rightwrap_orig (i - 1) g) <> None /\ norm1 g (rightwrap_orig i g) <> None /\
   norm1 g (rightwrap_orig (i + 1) g) <> None) <-> i_ok g i.
Proof.
  intros i g Hg. rewrite !rightwrap_orig_exact by exact Hg. unfold i_ok. lia.
Qed.

(* the statement of indices_in_bounds without its side condition is false: DESIGN §6 row 4, the grid (8,8,1) with
   z = 7 of box 8 (a position inside [0, box)) *)
Theorem tsc_thin_grid_refuted : exists G box p,
  wf3 G /\ dims3 G = (8, 8, 1) /\
  (let '(x, y, z, _) := p in (0 <= x)%Q /\ (x < box)%Q /\ (0 <= y)%Q /\ (y < box)%Q /\ (0 <= z)%Q /\ (z < box)%Q) /\
  tsc_scatter1_orig box 0 p G = Oob.
Proof.
  exists (zeros3 0%Q 8 8 1), 8%Q, (0%Q, 0%Q, 7%Q, 1%Q).
  split; [apply zeros3_wf; lia|]. split; [reflexivity|]. split; [cbv; repeat split; discriminate|].
  vm_compute. reflexivity.
Qed.

(* on a one-cell axis every coordinate above half the box is out of bounds, whatever the other two axes *)
Theorem tsc_one_cell_axis_upper_half_oob : forall z box : Q, (0 < box)%Q -> (box / 2 < z)%Q -> (z <= box)%Q ->
  norm1 1 (a_ip1 (tsc_axis_orig z 0 box 1)) = None.
Proof.
  intros z box Hb Hz Hz'. cbn [tsc_axis_orig a_ip1].
  set (p := ((z + 0) * (inject_Z 1 / box))%Q).
  assert (Hp : (1 # 2 < p)%Q).
  { unfold p. change (inject_Z 1) with 1%Q. apply Qlt_shift_div_l in Hz; [|reflexivity].
    assert (E : ((z + 0) * (1 / box) == z / box)%Q) by (field; intro Hc; rewrite Hc in Hb; discriminate).
    rewrite E. apply Qlt_shift_div_l; [exact Hb|]. rewrite Qmult_comm. 
    setoid_replace (box * (1 # 2))%Q with (box / 2)%Q by (field). apply Qlt_shift_div_r; [reflexivity|]. exact Hz. }
  destruct (round_half_even_bound p) as [B1 B2].
  assert (1 <= round_half_even p).
  { assert (0 < round_half_even p); [|lia]. rewrite Zlt_Qlt. change (inject_Z 0) with 0%Q.
    apply Qlt_le_trans with (p - (1 # 2))%Q.
    - unfold Qminus. rewrite <- (Qplus_opp_r (1 # 2)). apply Qplus_lt_l. exact Hp.
    - apply Qplus_le_l with (1 # 2)%Q. ring_simplify. 
      apply Qplus_le_l with (- inject_Z (round_half_even p))%Q. ring_simplify.
      setoid_replace (p + -1 * inject_Z (round_half_even p))%Q with (p - inject_Z (round_half_even p))%Q by ring. exact B2. }
  unfold rightwrap_orig. replace (1 <=? round_half_even p + 1) with true by lia.
  apply norm1_none. lia.
Qed.

(* two cells per axis are not enough once an offset is used: box = 2, cell = 1, offset = 3/4, pos = 15/8 < box *)
Theorem tsc_two_cell_offset_refuted :
  tsc_scatter1_orig 2 (3 # 4) (15 # 8, 0, 0, 1)%Q (zeros3 0%Q 2 2 2) = Oob.
Proof. vm_compute. reflexivity. Qed.

(* cic_serial: a one-cell-thick z axis is its 2-D mode and is fine (Properties.domain_admissible_cic), but a one-cell
   x (or y) axis has the same defect *)
Theorem cic_thin_x_refuted : cic_scatter1_orig 4 (3, 0, 0, 1)%Q (zeros3 0%Q 1 4 4) = Oob.
Proof. vm_compute. reflexivity. Qed.

Theorem cic_thin_z_fine : exists G', cic_scatter1_orig 4 (3, 3, 3, 1)%Q (zeros3 0%Q 4 4 1) = Ok G' /\ (total G' == 1)%Q.
Proof. eexists. split; [vm_compute; reflexivity|]. vm_compute. reflexivity. Qed.
