(* C06/Proofs.v — 3-D lemmas: the deposit of a table of rows into a checked row-major array, the canonical 27-row table
   as a product of three 1-D sums, one particle, many particles. *)
From Coq Require Import ZArith QArith Qround Qabs List Bool Lia Lqa Morphisms Permutation.
From Abacus.Common Require Import Arr Num.
From Abacus.C06 Require Import Tab Arr3 Gen Kernel1D Model Spec Arr3Facts KernelFacts Kernel1DFacts.
Import ListNotations.
Local Open Scope Z_scope.

(* ------------------------------------------------------------------ any table of rows *)
Definition row_ok (n0 n1 n2 : Z) (A : axes) (r : row) : Prop :=
  norm1 n0 (isel A (r_i0 r)) <> None /\ norm1 n1 (isel A (r_i1 r)) <> None /\ norm1 n2 (isel A (r_i2 r)) <> None.

Definition row_ind (n0 n1 n2 : Z) (A : axes) (r : row) (a b c : Z) : Q :=
  (delta (norm1 n0 (isel A (r_i0 r))) a * delta (norm1 n1 (isel A (r_i1 r))) b
   * delta (norm1 n2 (isel A (r_i2 r))) c)%Q.

Definition rows_sum (n0 n1 n2 : Z) (A : axes) (W : Q) (rows : list row) (a b c : Z) : Q :=
  Qsum (map (fun r => row_ind n0 n1 n2 A r a b c * wprod A W (r_w r))%Q rows).

Definition rows_total (A : axes) (W : Q) (rows : list row) : Q :=
  Qsum (map (fun r => wprod A W (r_w r)) rows).

Lemma delta_some x a : delta (Some x) a = if x =? a then 1%Q else 0%Q.
Proof. reflexivity. Qed.

Lemma dims3_eq {A} (G G' : arr3 A) : dims3 G' = dims3 G -> d0 G' = d0 G /\ d1 G' = d1 G /\ d2 G' = d2 G.
Proof. unfold dims3. intros H. inversion H. auto. Qed.

Lemma deposit_rows_spec A W rows : forall G, wf3 G -> Forall (row_ok (d0 G) (d1 G) (d2 G) A) rows ->
  exists G', deposit_rows A W rows G = Ok G' /\ wf3 G' /\ dims3 G' = dims3 G /\
    (forall a b c, in_grid G a b c ->
       (cell G' a b c == cell G a b c + rows_sum (d0 G) (d1 G) (d2 G) A W rows a b c)%Q) /\
    (total G' == total G + rows_total A W rows)%Q.
Proof.
  induction rows as [|r t IH]; intros G Hwf Hok.
  - exists G. cbn [deposit_rows]. unfold rows_sum, rows_total. cbn [map Qsum].
    split; [reflexivity|]. split; [exact Hwf|]. split; [reflexivity|]. split; [intros; ring|ring].
  - inversion Hok as [|r' t' Hr Ht]; subst. destruct Hr as (N0 & N1 & N2).
    destruct (norm1 (d0 G) (isel A (r_i0 r))) as [i'|] eqn:E0; [|congruence].
    destruct (norm1 (d1 G) (isel A (r_i1 r))) as [j'|] eqn:E1; [|congruence].
    destruct (norm1 (d2 G) (isel A (r_i2 r))) as [k'|] eqn:E2; [|congruence].
    destruct (upd3_spec G Hwf _ _ _ _ _ _ (fun v => v + wprod A W (r_w r))%Q E0 E1 E2)
      as (G1 & U & Hwf1 & Hd1 & Hc1 & Ht1).
    destruct (dims3_eq _ _ Hd1) as (D0 & D1 & D2).
    destruct (IH G1 Hwf1) as (G' & U' & Hwf' & Hd' & Hc' & Ht').
    { rewrite D0, D1, D2. exact Ht. }
    exists G'. cbn [deposit_rows]. unfold deposit_row. rewrite U. cbn [bind].
    split; [exact U'|]. split; [exact Hwf'|]. split; [congruence|]. split.
    + intros a b c Hin.
      assert (Hin1 : in_grid G1 a b c) by (unfold in_grid in *; rewrite D0, D1, D2; exact Hin).
      rewrite (Hc' a b c Hin1). rewrite (Hc1 a b c Hin). rewrite D0, D1, D2.
      unfold rows_sum. cbn [map Qsum]. unfold row_ind. rewrite E0, E1, E2. rewrite !delta_some.
      destruct (Z.eqb_spec a i'), (Z.eqb_spec b j'), (Z.eqb_spec c k');
        destruct (Z.eqb_spec i' a), (Z.eqb_spec j' b), (Z.eqb_spec k' c); try lia; cbn [andb]; subst; ring.
    + rewrite Ht', Ht1. unfold rows_total. cbn [map Qsum]. ring.
Qed.

Lemma deposit_rows_oob A W rows1 r rows2 G :
  wf3 G -> Forall (row_ok (d0 G) (d1 G) (d2 G) A) rows1 -> ~ row_ok (d0 G) (d1 G) (d2 G) A r ->
  deposit_rows A W (rows1 ++ r :: rows2) G = Oob.
Proof.
  revert G. induction rows1 as [|r1 t IH]; intros G Hwf Hok Hbad.
  - cbn [app deposit_rows]. unfold deposit_row. rewrite upd3_oob; [reflexivity|].
    unfold row_ok in Hbad.
    destruct (norm1 (d0 G) (isel A (r_i0 r))); [|auto].
    destruct (norm1 (d1 G) (isel A (r_i1 r))); [|auto].
    destruct (norm1 (d2 G) (isel A (r_i2 r))); [|auto].
    exfalso. apply Hbad. repeat split; discriminate.
  - inversion Hok as [|r' t' Hr Ht]; subst.
    destruct (deposit_rows_spec A W [r1] G Hwf) as (G1 & U & Hwf1 & Hd1 & _); [constructor; [exact Hr|constructor]|].
    cbn [deposit_rows] in U. destruct (deposit_row A W G r1) as [G1'| |] eqn:E; cbn [bind] in U; try discriminate.
    inversion U; subst G1'. cbn [app deposit_rows]. rewrite E. cbn [bind].
    destruct (dims3_eq _ _ Hd1) as (D0 & D1 & D2).
    apply IH; [exact Hwf1| |]; rewrite D0, D1, D2; assumption.
Qed.

(* ------------------------------------------------------------------ the canonical table *)
Definition sels := [M1; C0; P1].
Definition crow (sx sy sz : sel) : row := mkrow (AX, sx) (AY, sy) (AZ, sz) [WA AX sx; WA AY sy; WA AZ sz; WW].
(* every combination of the three selectors exactly once, index and weight selectors matching;
   the 9 rows with the central z cell first (they are also the 2-D table), then the 18 others *)
Definition canon_2d : list row := flat_map (fun sx => map (fun sy => crow sx sy C0) sels) sels.
Definition canon_3d : list row :=
  flat_map (fun sx => flat_map (fun sy => map (fun sz => crow sx sy sz) [M1; P1]) sels) sels.

Lemma tsc_table_2d_canon : tsc_table_2d = canon_2d. Proof. reflexivity. Qed.
Lemma tsc_table_3d_canon : tsc_table_3d = canon_3d. Proof. reflexivity. Qed.
Lemma cic_table_2d_canon : cic_table_2d = canon_2d. Proof. reflexivity. Qed.
Lemma cic_table_3d_canon : cic_table_3d = canon_3d. Proof. reflexivity. Qed.

Definition wsum3 (a : axis1) : Q := (a_wm1 a + a_w a + a_wp1 a)%Q.

Ltac table_cbn :=
  unfold rows_sum, rows_total, canon_2d, canon_3d, sels;
  cbn [flat_map map app Qsum]; unfold row_ind, crow;
  cbn [wprod fold_left isel wval pick fst snd a_isel a_wsel r_i0 r_i1 r_i2 r_w].

Lemma canon3_sum n0 n1 n2 X Y Zz W a b c :
  (rows_sum n0 n1 n2 (X, Y, Zz) W (canon_2d ++ canon_3d) a b c == W * (D n0 X a * D n1 Y b * D n2 Zz c))%Q.
Proof. table_cbn. unfold D. ring. Qed.

Lemma canon3_total X Y Zz W :
  (rows_total (X, Y, Zz) W (canon_2d ++ canon_3d) == W * (wsum3 X * wsum3 Y * wsum3 Zz))%Q.
Proof. table_cbn. unfold wsum3. ring. Qed.

Lemma canon2_sum n0 n1 n2 X Y Zz W a b c :
  (rows_sum n0 n1 n2 (X, Y, Zz) W canon_2d a b c
   == W * (D n0 X a * D n1 Y b * (delta (norm1 n2 (a_iw Zz)) c * a_w Zz)))%Q.
Proof. table_cbn. unfold D. ring. Qed.

Lemma canon2_total X Y Zz W : (rows_total (X, Y, Zz) W canon_2d == W * (wsum3 X * wsum3 Y * a_w Zz))%Q.
Proof. table_cbn. unfold wsum3. ring. Qed.

Lemma canon3_ok K n0 n1 n2 X Y Zz :
  axis_ok K n0 X -> axis_ok K n1 Y -> axis_ok K n2 Zz -> Forall (row_ok n0 n1 n2 (X, Y, Zz)) (canon_2d ++ canon_3d).
Proof.
  intros HX HY HZ. unfold canon_2d, canon_3d, sels. cbn [flat_map map app].
  repeat constructor; unfold row_ok, crow;
    cbn [isel pick fst snd a_isel r_i0 r_i1 r_i2];
    rewrite ?(ok_im1 _ _ _ HX), ?(ok_iw _ _ _ HX), ?(ok_ip1 _ _ _ HX), ?(ok_im1 _ _ _ HY), ?(ok_iw _ _ _ HY),
      ?(ok_ip1 _ _ _ HY), ?(ok_im1 _ _ _ HZ), ?(ok_iw _ _ _ HZ), ?(ok_ip1 _ _ _ HZ); discriminate.
Qed.

Lemma canon2_ok K n0 n1 n2 X Y Zz :
  axis_ok K n0 X -> axis_ok K n1 Y -> norm1 n2 (a_iw Zz) <> None -> Forall (row_ok n0 n1 n2 (X, Y, Zz)) canon_2d.
Proof.
  intros HX HY HZ. unfold canon_2d, sels. cbn [flat_map map app].
  repeat constructor; unfold row_ok, crow;
    cbn [isel pick fst snd a_isel r_i0 r_i1 r_i2];
    rewrite ?(ok_im1 _ _ _ HX), ?(ok_iw _ _ _ HX), ?(ok_ip1 _ _ _ HX), ?(ok_im1 _ _ _ HY), ?(ok_iw _ _ _ HY),
      ?(ok_ip1 _ _ _ HY); try discriminate; exact HZ.
Qed.

(* every single increment of the 27 is >= 0 *)
Lemma canon3_nonneg X Y Zz W :
  (0 <= W)%Q -> (0 <= a_wm1 X /\ 0 <= a_w X /\ 0 <= a_wp1 X)%Q -> (0 <= a_wm1 Y /\ 0 <= a_w Y /\ 0 <= a_wp1 Y)%Q ->
  (0 <= a_wm1 Zz /\ 0 <= a_w Zz /\ 0 <= a_wp1 Zz)%Q ->
  Forall (fun r => 0 <= wprod (X, Y, Zz) W (r_w r))%Q (canon_2d ++ canon_3d).
Proof.
  intros HW (X1 & X2 & X3) (Y1 & Y2 & Y3) (Z1 & Z2 & Z3). unfold canon_2d, canon_3d, sels. cbn [flat_map map app].
  repeat constructor; unfold crow; cbn [wprod fold_left wval pick fst snd a_wsel r_w];
    repeat apply Qmult_le_0_compat; assumption.
Qed.

(* ------------------------------------------------------------------ one particle *)
Lemma three_axes_spec K X Y Zz W G px py pz :
  kernel_like K -> wf3 G ->
  axis_ok K (d0 G) X -> axis_ok K (d1 G) Y -> axis_ok K (d2 G) Zz ->
  (a_p X == px)%Q -> (a_p Y == py)%Q -> (a_p Zz == pz)%Q ->
  (wsum3 X == 1)%Q -> (wsum3 Y == 1)%Q -> (wsum3 Zz == 1)%Q ->
  one_spec K G (deposit_rows (X, Y, Zz) W (canon_2d ++ canon_3d) G) (px, py, pz, W).
Proof.
  intros HK Hwf HX HY HZ Ex Ey Ez Sx Sy Sz.
  destruct (deposit_rows_spec (X, Y, Zz) W (canon_2d ++ canon_3d) G Hwf (canon3_ok K _ _ _ X Y Zz HX HY HZ))
    as (G' & U & Hwf' & Hd & Hc & Ht).
  exists G'. split; [exact U|]. split; [exact Hwf'|]. split; [exact Hd|]. split.
  - intros a b c Hin. rewrite (Hc a b c Hin), canon3_sum.
    rewrite (D_Kper K _ X a HK HX), (D_Kper K _ Y b HK HY), (D_Kper K _ Zz c HK HZ).
    rewrite (Kper_proper K _ a _ _ (k_proper K HK) Ex), (Kper_proper K _ b _ _ (k_proper K HK) Ey),
      (Kper_proper K _ c _ _ (k_proper K HK) Ez).
    unfold contrib. reflexivity.
  - rewrite Ht, canon3_total, Sx, Sy, Sz. cbn [snd]. ring.
Qed.

Lemma tsc_scatter1_spec box off hw p G :
  wf3 G -> 0 < d0 G -> 0 < d1 G -> 0 < d2 G -> (0 < box)%Q -> adm_tsc box off (d0 G) (d1 G) (d2 G) p ->
  one_spec K_tsc G (tsc_scatter1 box off hw p G) (gc3 box off hw (d0 G) (d1 G) (d2 G) p).
Proof.
  destruct p as [[[x y] z] w]. intros Hwf G0 G1 G2 Hb (Ax & Ay & Az). unfold near in *.
  assert (HX : axis_ok K_tsc (d0 G) (tsc_axis_x x off box (d0 G))).
  { apply tsc_axis_x_ok; [exact G0|]. unfold tsc_ix. rewrite (round_half_even_comp _ _ (tsc_px_spec x off (d0 G) box Hb)). exact Ax. }
  assert (HY : axis_ok K_tsc (d1 G) (tsc_axis_y y off box (d1 G))).
  { apply tsc_axis_y_ok; [exact G1|]. unfold tsc_iy. rewrite (round_half_even_comp _ _ (tsc_py_spec y off (d1 G) box Hb)). exact Ay. }
  assert (HZ : axis_ok K_tsc (d2 G) (tsc_axis_z z off box (d2 G))).
  { apply tsc_axis_z_ok; [exact G2|]. unfold tsc_iz. rewrite (round_half_even_comp _ _ (tsc_pz_spec z off (d2 G) box Hb)). exact Az. }
  change (tsc_scatter1 box off hw (x, y, z, w) G)
    with (deposit_rows (tsc_axis_x x off box (d0 G), tsc_axis_y y off box (d1 G), tsc_axis_z z off box (d2 G))
            (Wof hw w) (canon_2d ++ canon_3d) G).
  unfold gc3.
  apply (three_axes_spec K_tsc); try assumption; try exact K_tsc_kernel.
  - apply tsc_px_spec; exact Hb.
  - apply tsc_py_spec; exact Hb.
  - apply tsc_pz_spec; exact Hb.
  - apply (axis_ok_tsc_sum1 _ _ HX).
  - apply (axis_ok_tsc_sum1 _ _ HY).
  - apply (axis_ok_tsc_sum1 _ _ HZ).
Qed.

Lemma cic_scatter1_spec box hw p G :
  wf3 G -> 0 < d0 G -> 0 < d1 G -> 0 < d2 G -> (0 < box)%Q -> adm_cic box (d0 G) (d1 G) (d2 G) p ->
  one_spec K_cic G (cic_scatter1 box hw p G) (gc3 box 0 hw (d0 G) (d1 G) (d2 G) p).
Proof.
  destruct p as [[[x y] z] w]. intros Hwf G0 G1 G2 Hb (Ax & Ay & Az). unfold near in *.
  assert (HX : axis_ok K_cic (d0 G) (cic_axis_x x box (d0 G))).
  { apply cic_axis_x_ok; [exact G0|]. unfold cic_ix. rewrite (round_half_even_comp _ _ (cic_px_spec x (d0 G) box Hb)). exact Ax. }
  assert (HY : axis_ok K_cic (d1 G) (cic_axis_y y box (d1 G))).
  { apply cic_axis_y_ok; [exact G1|]. unfold cic_iy. rewrite (round_half_even_comp _ _ (cic_py_spec y (d1 G) box Hb)). exact Ay. }
  unfold gc3.
  destruct (Z.eq_dec (d2 G) 1) as [E1|E1].
  - (* one-cell-thick z axis: the 2-D branch *)
    assert (Hrun : cic_scatter1 box hw (x, y, z, w) G
                   = deposit_rows (cic_axis_x x box (d0 G), cic_axis_y y box (d1 G), axis_2d 0 1) (Wof hw w) canon_2d G).
    { unfold cic_scatter1, cic_threeD, cic_gz, tnth3_2, dims3. cbn [snd]. rewrite E1. reflexivity. }
    rewrite Hrun.
    destruct (deposit_rows_spec (cic_axis_x x box (d0 G), cic_axis_y y box (d1 G), axis_2d 0 1) (Wof hw w) canon_2d G Hwf)
      as (G' & U & Hwf' & Hd & Hc & Ht).
    { apply (canon2_ok K_cic); [exact HX|exact HY|]. rewrite E1. cbn. discriminate. }
    exists G'. split; [exact U|]. split; [exact Hwf'|]. split; [exact Hd|]. split.
    + intros a b c Hin. rewrite (Hc a b c Hin), canon2_sum.
      rewrite (D_Kper K_cic _ _ a K_cic_kernel HX), (D_Kper K_cic _ _ b K_cic_kernel HY).
      rewrite (Kper_proper K_cic _ a _ _ K_cic_proper (cic_px_spec x (d0 G) box Hb)),
        (Kper_proper K_cic _ b _ _ K_cic_proper (cic_py_spec y (d1 G) box Hb)).
      assert (c = 0) by (destruct Hin as (_ & _ & Hc0); lia). subst c. unfold contrib. rewrite E1.
      rewrite (Kper_g1 K_cic _ K_cic_kernel (K_cic_sum1 _)).
      cbn [axis_2d a_iw a_w]. change (norm1 1 0) with (Some 0). cbn [delta Z.eqb]. ring.
    + rewrite Ht, canon2_total, (axis_ok_cic_sum1 _ _ HX), (axis_ok_cic_sum1 _ _ HY). cbn [snd axis_2d a_w]. ring.
  - destruct Az as [Az|Az]; [contradiction|].
    assert (HZ : axis_ok K_cic (d2 G) (cic_axis_z z box (d2 G))).
    { apply cic_axis_z_ok; [exact G2|]. unfold cic_iz. rewrite (round_half_even_comp _ _ (cic_pz_spec z (d2 G) box Hb)). exact Az. }
    assert (Hrun : cic_scatter1 box hw (x, y, z, w) G
                   = deposit_rows (cic_axis_x x box (d0 G), cic_axis_y y box (d1 G), cic_axis_z z box (d2 G))
                       (Wof hw w) (canon_2d ++ canon_3d) G).
    { unfold cic_scatter1, cic_threeD, cic_gz, tnth3_2, dims3. cbn [snd].
      replace (d2 G =? 1) with false by lia. reflexivity. }
    rewrite Hrun.
    apply (three_axes_spec K_cic); try assumption; try exact K_cic_kernel.
    + apply cic_px_spec; exact Hb.
    + apply cic_py_spec; exact Hb.
    + apply cic_pz_spec; exact Hb.
    + apply (axis_ok_cic_sum1 _ _ HX).
    + apply (axis_ok_cic_sum1 _ _ HY).
    + apply (axis_ok_cic_sum1 _ _ HZ).
Qed.

(* ------------------------------------------------------------------ many particles *)
Section Fold.
  Variable K : Q -> Q.
  Variable step : particle -> arr3 Q -> res (arr3 Q).
  Variable adm : Z -> Z -> Z -> particle -> Prop.
  Variable gc : Z -> Z -> Z -> particle -> Q * Q * Q * Q.
  Hypothesis step_spec : forall p G, wf3 G -> 0 < d0 G -> 0 < d1 G -> 0 < d2 G -> adm (d0 G) (d1 G) (d2 G) p ->
    one_spec K G (step p G) (gc (d0 G) (d1 G) (d2 G) p).

  Fixpoint fold (ps : list particle) (G : arr3 Q) : res (arr3 Q) :=
    match ps with
    | [] => Ok G
    | p :: t => bind (step p G) (fold t)
    end.

  Lemma fold_spec ps : forall G, wf3 G -> 0 < d0 G -> 0 < d1 G -> 0 < d2 G ->
    Forall (adm (d0 G) (d1 G) (d2 G)) ps -> many_spec K G (fold ps G) (map (gc (d0 G) (d1 G) (d2 G)) ps).
  Proof.
    induction ps as [|p t IH]; intros G Hwf G0 G1 G2 Hadm.
    - exists G. cbn [fold map Qsum]. split; [reflexivity|]. split; [exact Hwf|]. split; [reflexivity|].
      split; [intros; ring|ring].
    - inversion Hadm as [|p' t' Hp Ht]; subst.
      destruct (step_spec p G Hwf G0 G1 G2 Hp) as (Ga & Ua & Hwfa & Hda & Hca & Hta).
      destruct (dims3_eq _ _ Hda) as (D0 & D1 & D2).
      destruct (IH Ga Hwfa) as (Gb & Ub & Hwfb & Hdb & Hcb & Htb); try lia.
      { rewrite D0, D1, D2. exact Ht. }
      exists Gb. cbn [fold]. rewrite Ua. cbn [bind]. split; [exact Ub|]. split; [exact Hwfb|]. split; [congruence|].
      split.
      + intros a b c Hin.
        assert (Hin1 : in_grid Ga a b c) by (unfold in_grid in *; rewrite D0, D1, D2; exact Hin).
        rewrite (Hcb a b c Hin1), (Hca a b c Hin). rewrite D0, D1, D2. cbn [map Qsum]. ring.
      + rewrite Htb, Hta. rewrite D0, D1, D2. cbn [map Qsum]. ring.
  Qed.

  Lemma fold_app ps1 ps2 G : fold (ps1 ++ ps2) G = bind (fold ps1 G) (fold ps2).
  Proof.
    revert G. induction ps1 as [|p t IH]; intros G; cbn [app fold bind]; [reflexivity|].
    destruct (step p G); cbn [bind]; auto.
  Qed.
End Fold.

Lemma Kof_kernel k : kernel_like (Kof k).
Proof. destruct k; [exact K_tsc_kernel|exact K_cic_kernel]. Qed.

Lemma scatter1_spec k box off hw p G :
  wf3 G -> 0 < d0 G -> 0 < d1 G -> 0 < d2 G -> (0 < box)%Q -> adm k box off (d0 G) (d1 G) (d2 G) p ->
  one_spec (Kof k) G (scatter1 k box off hw p G) (gc3 box (offof k off) hw (d0 G) (d1 G) (d2 G) p).
Proof.
  destruct k; cbn [adm Kof offof scatter1]; intros.
  - apply tsc_scatter1_spec; assumption.
  - apply cic_scatter1_spec; assumption.
Qed.

Lemma scatter_fold k box off hw ps G : scatter k box off hw ps G = fold (scatter1 k box off hw) ps G.
Proof. revert G. induction ps as [|p t IH]; intros G; cbn [scatter fold]; [reflexivity|].
  destruct (scatter1 k box off hw p G); cbn [bind]; auto. Qed.

Lemma scatter_spec k box off hw ps G :
  wf3 G -> 0 < d0 G -> 0 < d1 G -> 0 < d2 G -> (0 < box)%Q -> Forall (adm k box off (d0 G) (d1 G) (d2 G)) ps ->
  many_spec (Kof k) G (scatter k box off hw ps G) (map (gc3 box (offof k off) hw (d0 G) (d1 G) (d2 G)) ps).
Proof.
  intros Hwf G0 G1 G2 Hb Hadm. rewrite scatter_fold.
  apply (fold_spec (Kof k) (scatter1 k box off hw) (adm k box off)); try assumption.
  intros p G' Hwf' A0 A1 A2 Hp. apply scatter1_spec; assumption.
Qed.

Lemma scatter_app k box off hw ps1 ps2 G :
  scatter k box off hw (ps1 ++ ps2) G = bind (scatter k box off hw ps1 G) (scatter k box off hw ps2).
Proof.
  rewrite !scatter_fold, fold_app. destruct (fold (scatter1 k box off hw) ps1 G); cbn [bind]; auto.
  apply eq_sym, scatter_fold.
Qed.

(* ------------------------------------------------------------------ sums *)
Lemma Qsum_nonneg l : Forall (fun x => 0 <= x)%Q l -> (0 <= Qsum l)%Q.
Proof. induction 1; cbn [Qsum]; lra. Qed.

Lemma Qsum_perm l l' : Permutation l l' -> (Qsum l == Qsum l')%Q.
Proof. induction 1; cbn [Qsum]; try lra. Qed.

Lemma Qsum_map_ext {A B} (f : A -> Q) (g : B -> Q) (R : A -> B -> Prop) l l' :
  Forall2 R l l' -> (forall x y, R x y -> (f x == g y)%Q) -> (Qsum (map f l) == Qsum (map g l'))%Q.
Proof.
  intros H Hfg. induction H as [|x y l l' Hxy _ IH]; cbn [map Qsum]; [reflexivity|].
  rewrite IH, (Hfg x y Hxy). reflexivity.
Qed.

Lemma contrib_nonneg K n0 n1 n2 a b c pw : kernel_like K -> (0 <= snd pw)%Q -> (0 <= contrib K n0 n1 n2 a b c pw)%Q.
Proof.
  intros HK. destruct pw as [[[px py] pz] w]. cbn [snd contrib]. intros Hw.
  apply Qmult_le_0_compat; [exact Hw|]. repeat apply Qmult_le_0_compat; apply Kper_nonneg; exact HK.
Qed.

(* ------------------------------------------------------------------ whole-cell shifts, periodic boundary *)
Lemma grid_coord_proper x x' off box g : (x == x')%Q -> (grid_coord x off box g == grid_coord x' off box g)%Q.
Proof. intros E. unfold grid_coord. rewrite E. reflexivity. Qed.

Lemma Kper_shifted K box off g t a x x' : Proper (Qeq ==> Qeq) K -> 0 < g -> (0 < box)%Q -> 0 <= a < g ->
  shifted1 box g t x x' ->
  (Kper K g ((a + t) mod g) (grid_coord x' off box g) == Kper K g a (grid_coord x off box g))%Q.
Proof.
  intros HK Hg Hb Ha [m E].
  rewrite (Kper_proper K g _ _ _ HK (grid_coord_proper _ _ off box g E)).
  rewrite (Kper_proper K g _ _ _ HK (grid_coord_shift x off box g (t + m * g) Hg Hb)).
  replace ((a + t) mod g) with ((a + (t + m * g)) mod g).
  - apply Kper_shift; assumption.
  - rewrite Z.add_assoc. apply Z_mod_plus_full.
Qed.

Lemma contrib_shifted K box off hw n0 n1 n2 t p p' a b c :
  Proper (Qeq ==> Qeq) K -> 0 < n0 -> 0 < n1 -> 0 < n2 -> (0 < box)%Q ->
  0 <= a < n0 -> 0 <= b < n1 -> 0 <= c < n2 -> shifted box n0 n1 n2 t p p' ->
  (contrib K n0 n1 n2 ((a + fst (fst t)) mod n0) ((b + snd (fst t)) mod n1) ((c + snd t) mod n2) (gc3 box off hw n0 n1 n2 p')
   == contrib K n0 n1 n2 a b c (gc3 box off hw n0 n1 n2 p))%Q.
Proof.
  intros HK G0 G1 G2 Hb Ha Hb' Hc. destruct p as [[[x y] z] w], p' as [[[x' y'] z'] w'], t as [[tx ty] tz].
  intros (Ew & Sx & Sy & Sz). subst w'. cbn [fst snd gc3 contrib].
  rewrite (Kper_shifted K box off n0 tx a x x' HK G0 Hb Ha Sx).
  rewrite (Kper_shifted K box off n1 ty b y y' HK G1 Hb Hb' Sy).
  rewrite (Kper_shifted K box off n2 tz c z z' HK G2 Hb Hc Sz). reflexivity.
Qed.
