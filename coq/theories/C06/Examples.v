(* C06/Examples.v — non-vacuity of every hypothesis used in Properties.v and vm_compute regression values. *)
From Coq Require Import ZArith QArith List Bool Lia Lqa Permutation.
From Abacus.Common Require Import Arr Num Corr.
From Abacus.C06 Require Import Tab Arr3 Gen Kernel1D Model Spec Arr3Facts KernelFacts Kernel1DFacts Proofs Corollaries Run.
Import ListNotations.
Local Open Scope Z_scope.

Definition P (x y z w : Q) : particle := (x, y, z, w).
Arguments P (x y z w)%Q_scope.

Definition G444 : arr3 Q := zeros3 0%Q 4 4 4.
Definition G3612 : arr3 Q := zeros3 0%Q 3 6 12.
Definition G441 : arr3 Q := zeros3 0%Q 4 4 1.

Example wf_444 : wf3 G444. Proof. apply zeros3_wf; lia. Qed.
Example wf_aniso : wf3 G3612. Proof. apply zeros3_wf; lia. Qed.
Example wf_thin : wf3 G441. Proof. apply zeros3_wf; lia. Qed.

(* adm: a half-cell tie, pos = box, offset of half a cell on a cubic grid; anisotropic grid; the generic range *)
Example adm_tsc_ex : adm TSC 4%Q (1 # 2)%Q 4 4 4 (P (7 # 2) (4) (0) (2)).
Proof. cbv. repeat split; discriminate. Qed.
Example adm_tsc_aniso_ex : adm TSC 6%Q (1 # 4)%Q 3 6 12 (P (6) (11 # 4) (1 # 8) (1)).
Proof. cbv. repeat split; discriminate. Qed.
Example adm_tsc_outside_ex : adm TSC 4%Q 0%Q 4 4 4 (P ((-5) # 2) (13 # 2) (0) (1)).     (* beyond [0, box] yet admissible *)
Proof. cbv. repeat split; discriminate. Qed.
Example adm_cic_ex : adm CIC 4%Q 0%Q 4 4 4 (P (31 # 8) (4) (1 # 2) (3)).
Proof. cbv. split; [split; discriminate|]. split; [split; discriminate|]. right. split; discriminate. Qed.
Example adm_cic_thin_ex : adm CIC 4%Q 0%Q 4 4 1 (P (31 # 8) (4) (3) (3)).
Proof. cbv. split; [split; discriminate|]. split; [split; discriminate|]. left. reflexivity. Qed.

(* the hypotheses of the domain theorems *)
Example domain_hyps_ex :
  (0 < 4)%Q /\ (0 <= 1 # 2)%Q /\ 3 <= 4 /\ ((1 # 2) * inject_Z 4 < 4)%Q /\ ((0 <= 4)%Q /\ (4 <= 4)%Q).
Proof. repeat split; try lia; try (cbv; discriminate); reflexivity. Qed.
Example domain_instance : adm TSC 4%Q (1 # 2)%Q 4 4 4 (P (4) (4) (4) (1)).
Proof. apply domain_adm_tsc_lemma; try lia; try (cbv; discriminate); split; cbv; discriminate. Qed.

(* weights >= 0 *)
Example weights_nonneg_ex : Forall (fun p => 0 <= pweight true p)%Q [(P (7 # 2) (4) (0) (2)); (P (1) (1) (1) (0))].
Proof. repeat constructor; cbv; discriminate. Qed.

(* Permutation, shifted, in_wrap_range, kernel_like, axis_ok, nearest *)
Example perm_ex : Permutation [(P (1) (2) (3) (1)); (P (0) (0) (0) (2))] [(P (0) (0) (0) (2)); (P (1) (2) (3) (1))].
Proof. apply perm_swap. Qed.
Example shifted_ex : shifted 4%Q 4 4 4 (1, -1, 6) (P (7 # 2) (4) (0) (2)) (P (1 # 2) (3) (2) (2)).
Proof.
  cbn. split; [reflexivity|]. repeat split.
  - exists (-1). reflexivity.
  - exists 0. reflexivity.
  - exists (-1). reflexivity.
Qed.
Example shifted_adm_ex : adm TSC 4%Q 0%Q 4 4 4 (P (1 # 2) (3) (2) (2)). Proof. cbv. repeat split; discriminate. Qed.
Example roll_hyp_ex : forall a b c, in_grid G444 a b c ->
  (cell G444 ((a + 1) mod 4) ((b + -1) mod 4) ((c + 6) mod 4) == cell G444 a b c)%Q.
Proof. intros. unfold G444. rewrite !zeros3_cell. reflexivity. Qed.
Example wrap_range_ex : in_wrap_range 4%Q (P (-4) (31 # 4) (0) (1)).
Proof. cbv. repeat split; discriminate. Qed.
Example kernel_like_ex : kernel_like K_tsc /\ kernel_like K_cic.
Proof. split; [exact K_tsc_kernel|exact K_cic_kernel]. Qed.
Example axis_ok_ex : axis_ok K_tsc 4 (tsc_axis_x (7 # 2)%Q (1 # 2)%Q 4%Q 4).
Proof. apply tsc_axis_x_ok; [lia|]. cbv. split; discriminate. Qed.
Example nearest_tie_ex :   (* p = 5/2: both 2 and 3 are nearest *)
  (inject_Z 2 - (5 # 2) <= 1 # 2)%Q /\ ((5 # 2) - inject_Z 2 <= 1 # 2)%Q /\
  (inject_Z 3 - (5 # 2) <= 1 # 2)%Q /\ ((5 # 2) - inject_Z 3 <= 1 # 2)%Q.
Proof. repeat split; cbv; discriminate. Qed.
Example wrap_hyp_ex : (0 < 4)%Q /\ (- (4) <= -4)%Q /\ (-4 < 2 * 4)%Q.
Proof. repeat split; cbv; discriminate. Qed.

(* regression values (model) *)
Example ex_tsc_centre :   (* a particle on a cell centre: 3/4, 1/8, 1/8 per axis *)
  run (0, (4, 4, 4), 4%Q, 0%Q, false, false, [P 1 1 1 1], [])
  = vlistQ (map Qred (dat (mk3 4 4 4
      (map (fun n => let a := n / 16 in let b := (n / 4) mod 4 in let c := n mod 4 in
                     let w := fun i => if i =? 1 then (3 # 4)%Q else if (i =? 0) || (i =? 2) then (1 # 8)%Q else 0%Q in
                     (w a * w b * w c)%Q) (map Z.of_nat (seq 0 64)))))).
Proof. vm_compute. reflexivity. Qed.

Example ex_tsc_tie_total :   (* half-cell ties and pos = box with an offset: total = weight *)
  holds (0, (4, 4, 4), 4%Q, (1 # 2)%Q, true, false, [P (7 # 2) 4 0 2], []) = true.
Proof. vm_compute. reflexivity. Qed.

Example ex_cic_thin : run (1, (4, 4, 1), 4%Q, 0%Q, false, false, [P (31 # 8) 3 3 1], [])
  = vlistQ [0; 0; 0; 7 # 8; 0; 0; 0; 0; 0; 0; 0; 0; 0; 0; 0; 1 # 8]%Q.
Proof. vm_compute. reflexivity. Qed.

Example ex_wrap : map (fun x => Qred (tsc_wrap1 x 4%Q)) [-4; (-1) # 8; 0; 4; 31 # 4]%Q = [0; 31 # 8; 0; 0; 15 # 4]%Q.
Proof. vm_compute. reflexivity. Qed.
