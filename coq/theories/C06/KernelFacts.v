(* C06/KernelFacts.v — facts about the specification kernels (Spec.v) only: piecewise formulas, support,
   non-negativity, compatibility with ==, the window sum, periodisation under whole-cell shifts.
   Nothing here mentions the code. *)
From Coq Require Import ZArith QArith Qround Qabs List Bool Lia Lqa Morphisms.
From Abacus.Common Require Import Arr Num.
From Abacus.C06 Require Import Arr3 Spec Arr3Facts.
Import ListNotations.
Local Open Scope Z_scope.

Lemma Qle_bool_false a b : Qle_bool a b = false -> (b < a)%Q.
Proof.
  intros H. apply Qnot_le_lt. intros Hle. apply Qle_bool_iff in Hle. congruence.
Qed.

Ltac qbools :=
  repeat match goal with
    | |- context [Qle_bool ?a ?b] =>
        let E := fresh "E" in
        destruct (Qle_bool a b) eqn:E; [apply Qle_bool_iff in E | apply Qle_bool_false in E]
    | |- context [Qltb ?a ?b] =>
        let E := fresh "E" in
        destruct (Qltb a b) eqn:E; [apply Qltb_lt in E | apply Qltb_ge in E]
    end.

Lemma Qabs_sq x : (Qabs x * Qabs x == x * x)%Q.
Proof. apply Qabs_case; intros; ring. Qed.

(* integers vs rationals *)
Lemma Zle_of_Qlt1 a b : (inject_Z a < inject_Z b + 1)%Q -> a <= b.
Proof.
  intros H. assert (a < b + 1); [|lia]. rewrite Zlt_Qlt, inject_Z_plus. exact H.
Qed.

Lemma Qle_of_Zle a b : a <= b -> (inject_Z a <= inject_Z b)%Q.
Proof. intros H. rewrite <- Zle_Qle. exact H. Qed.

Lemma inject_Z_add1 i : (inject_Z (i + 1) == inject_Z i + 1)%Q.
Proof. rewrite inject_Z_plus. reflexivity. Qed.
Lemma inject_Z_sub1 i : (inject_Z (i - 1) == inject_Z i - 1)%Q.
Proof. unfold Z.sub. rewrite inject_Z_plus. reflexivity. Qed.
Lemma inject_Z_addk i k : (inject_Z (i + k) == inject_Z i + inject_Z k)%Q.
Proof. rewrite inject_Z_plus. reflexivity. Qed.

(* ---------------------------------------------------------------- K_tsc *)
Lemma K_tsc_mid x : (Qabs x <= 1 # 2)%Q -> (K_tsc x == (3 # 4) - x * x)%Q.
Proof.
  intros H. unfold K_tsc. cbv zeta. qbools; try lra. rewrite Qabs_sq. reflexivity.
Qed.

Lemma K_tsc_side x : (1 # 2 <= Qabs x)%Q -> (Qabs x <= 3 # 2)%Q ->
  (K_tsc x == (1 # 2) * ((3 # 2) - Qabs x) * ((3 # 2) - Qabs x))%Q.
Proof.
  intros H1 H2. unfold K_tsc. cbv zeta. qbools; try lra.
  assert (Qabs x == 1 # 2)%Q by lra. rewrite Qabs_sq. 
  assert (Hs : (x * x == Qabs x * Qabs x)%Q) by (symmetry; apply Qabs_sq). rewrite Hs. rewrite H. reflexivity.
Qed.

Lemma K_tsc_out x : (3 # 2 <= Qabs x)%Q -> (K_tsc x == 0)%Q.
Proof.
  intros H. unfold K_tsc. cbv zeta. qbools; try lra.
  assert (Hq : (Qabs x == 3 # 2)%Q) by lra. rewrite Hq. reflexivity.
Qed.

Lemma K_tsc_nonneg x : (0 <= K_tsc x)%Q.
Proof.
  unfold K_tsc. cbv zeta. pose proof (Qabs_nonneg x). qbools; try lra; nra.
Qed.

Global Instance K_tsc_proper : Proper (Qeq ==> Qeq) K_tsc.
Proof.
  intros x y E. assert (Ea : (Qabs x == Qabs y)%Q) by (rewrite E; reflexivity).
  unfold K_tsc. cbv zeta. qbools; try lra; rewrite ?Ea; reflexivity.
Qed.

(* ---------------------------------------------------------------- K_cic *)
Lemma K_cic_in x : (Qabs x <= 1)%Q -> (K_cic x == 1 - Qabs x)%Q.
Proof. intros H. unfold K_cic. cbv zeta. qbools; try lra. Qed.

Lemma K_cic_out x : (1 <= Qabs x)%Q -> (K_cic x == 0)%Q.
Proof. intros H. unfold K_cic. cbv zeta. qbools; try lra. Qed.

Lemma K_cic_nonneg x : (0 <= K_cic x)%Q.
Proof. unfold K_cic. cbv zeta. qbools; lra. Qed.

Global Instance K_cic_proper : Proper (Qeq ==> Qeq) K_cic.
Proof.
  intros x y E. assert (Ea : (Qabs x == Qabs y)%Q) by (rewrite E; reflexivity).
  unfold K_cic. cbv zeta. qbools; try lra.
Qed.

(* a kernel for the purposes of the generic lemmas *)
Record kernel_like (K : Q -> Q) : Prop := {
  k_proper : Proper (Qeq ==> Qeq) K;
  k_support : forall x, (3 # 2 <= Qabs x)%Q -> (K x == 0)%Q;
  k_nonneg : forall x, (0 <= K x)%Q
}.

Lemma K_tsc_kernel : kernel_like K_tsc.
Proof. split; [exact K_tsc_proper|exact K_tsc_out|exact K_tsc_nonneg]. Qed.

Lemma K_cic_kernel : kernel_like K_cic.
Proof.
  split; [exact K_cic_proper| |exact K_cic_nonneg].
  intros x H. apply K_cic_out. lra.
Qed.

(* ---------------------------------------------------------------- the window sum *)
Definition delta (o : option Z) (a : Z) : Q :=
  match o with Some x => if x =? a then 1%Q else 0%Q | None => 0%Q end.

Lemma nearest_floor p i :
  (inject_Z i - p <= 1 # 2)%Q -> (p - inject_Z i <= 1 # 2)%Q -> i = Qfloor p \/ i = Qfloor p + 1.
Proof.
  intros H1 H2. pose proof (Qfloor_le p) as Hf. pose proof (Qlt_floor p) as Hc.
  rewrite inject_Z_plus in Hc. change (inject_Z 1) with 1%Q in Hc.
  assert (A : Qfloor p <= i) by (apply Zle_of_Qlt1; lra).
  assert (B : i <= Qfloor p + 1) by (apply Zle_of_Qlt1; rewrite inject_Z_plus; change (inject_Z 1) with 1%Q; lra).
  lia.
Qed.

Lemma window_sum3 (F : Z -> Q) p i :
  (inject_Z i - p <= 1 # 2)%Q -> (p - inject_Z i <= 1 # 2)%Q ->
  (forall c, c <= i - 2 \/ i + 2 <= c -> (F c == 0)%Q) ->
  (Qsum (map F (window p)) == F (i - 1)%Z + F i + F (i + 1)%Z)%Q.
Proof.
  intros H1 H2 HF. unfold window, zrange. cbn [seq map Qsum Z.of_nat Pos.of_succ_nat Pos.succ].
  destruct (nearest_floor p i H1 H2) as [E|E].
  - rewrite <- E.
    replace (i - 2 + 0) with (i - 2) by lia. replace (i - 2 + 1) with (i - 1) by lia.
    replace (i - 2 + 2) with i by lia. replace (i - 2 + 3) with (i + 1) by lia.
    replace (i - 2 + 4) with (i + 2) by lia.
    rewrite (HF (i - 2)) by lia. rewrite (HF (i + 2)) by lia. ring.
  - replace (Qfloor p) with (i - 1) by lia.
    replace (i - 1 - 2 + 0) with (i - 3) by lia. replace (i - 1 - 2 + 1) with (i - 2) by lia.
    replace (i - 1 - 2 + 2) with (i - 1) by lia. replace (i - 1 - 2 + 3) with i by lia.
    replace (i - 1 - 2 + 4) with (i + 1) by lia.
    rewrite (HF (i - 3)) by lia. rewrite (HF (i - 2)) by lia. ring.
Qed.

Lemma far_abs p i c :
  (inject_Z i - p <= 1 # 2)%Q -> (p - inject_Z i <= 1 # 2)%Q -> c <= i - 2 \/ i + 2 <= c ->
  (3 # 2 <= Qabs (inject_Z c - p))%Q.
Proof.
  intros H1 H2 [Hc|Hc].
  - apply Qle_of_Zle in Hc. unfold Z.sub in Hc. rewrite inject_Z_plus in Hc. change (inject_Z (- (2))) with (-2 # 1)%Q in Hc.
    rewrite Qabs_neg by lra. lra.
  - apply Qle_of_Zle in Hc. rewrite inject_Z_plus in Hc. change (inject_Z 2) with 2%Q in Hc.
    rewrite Qabs_pos by lra. lra.
Qed.

Lemma Kterm_delta K g a p c :
  (Kterm K g a p c == delta (Some (c mod g)) a * K (inject_Z c - p))%Q.
Proof. unfold Kterm, delta. destruct (c mod g =? a); ring. Qed.

Lemma three_point K g a p i : kernel_like K ->
  (inject_Z i - p <= 1 # 2)%Q -> (p - inject_Z i <= 1 # 2)%Q ->
  (Kper K g a p ==
   delta (Some ((i - 1) mod g)%Z) a * K (inject_Z (i - 1) - p) + delta (Some (i mod g)%Z) a * K (inject_Z i - p)
   + delta (Some ((i + 1) mod g)%Z) a * K (inject_Z (i + 1) - p))%Q.
Proof.
  intros HK H1 H2. unfold Kper. rewrite (window_sum3 _ p i H1 H2).
  - rewrite !Kterm_delta. reflexivity.
  - intros c Hc. unfold Kterm. destruct (c mod g =? a); [|reflexivity].
    apply (k_support K HK). apply (far_abs p i c H1 H2 Hc).
Qed.

(* partition of unity of the two kernels over the integers *)
Lemma K_tsc_sum1 p i :
  (inject_Z i - p <= 1 # 2)%Q -> (p - inject_Z i <= 1 # 2)%Q ->
  (K_tsc (inject_Z (i - 1) - p) + K_tsc (inject_Z i - p) + K_tsc (inject_Z (i + 1) - p) == 1)%Q.
Proof.
  intros H1 H2. pose proof (inject_Z_sub1 i) as Em. pose proof (inject_Z_add1 i) as Ep.
  rewrite (K_tsc_mid (inject_Z i - p)) by (apply Qabs_Qle_condition; lra).
  rewrite (K_tsc_side (inject_Z (i - 1) - p)) by (rewrite Qabs_neg by lra; lra).
  rewrite (K_tsc_side (inject_Z (i + 1) - p)) by (rewrite Qabs_pos by lra; lra).
  rewrite (Qabs_neg (inject_Z (i - 1) - p)) by lra. rewrite (Qabs_pos (inject_Z (i + 1) - p)) by lra.
  rewrite Em, Ep. ring.
Qed.

Lemma K_cic_sum1 p i :
  (inject_Z i - p <= 1 # 2)%Q -> (p - inject_Z i <= 1 # 2)%Q ->
  (K_cic (inject_Z (i - 1) - p) + K_cic (inject_Z i - p) + K_cic (inject_Z (i + 1) - p) == 1)%Q.
Proof.
  intros H1 H2. pose proof (inject_Z_sub1 i) as Em. pose proof (inject_Z_add1 i) as Ep.
  rewrite (K_cic_in (inject_Z i - p)) by (apply Qabs_Qle_condition; lra).
  destruct (Qlt_le_dec 0 (inject_Z i - p)) as [Hd|Hd].
  - rewrite (K_cic_in (inject_Z (i - 1) - p)) by (rewrite Qabs_neg by lra; lra).
    rewrite (K_cic_out (inject_Z (i + 1) - p)) by (rewrite Qabs_pos by lra; lra).
    rewrite (Qabs_neg (inject_Z (i - 1) - p)) by lra. rewrite (Qabs_pos (inject_Z i - p)) by lra.
    rewrite Em. ring.
  - rewrite (K_cic_out (inject_Z (i - 1) - p)) by (rewrite Qabs_neg by lra; lra).
    rewrite (K_cic_in (inject_Z (i + 1) - p)) by (rewrite Qabs_pos by lra; lra).
    rewrite (Qabs_pos (inject_Z (i + 1) - p)) by lra. rewrite (Qabs_neg (inject_Z i - p)) by lra.
    rewrite Ep. ring.
Qed.

(* the nearest integer exists: used to state facts about Kper without reference to any rounding rule *)
Lemma nearest_exists p : exists i, (inject_Z i - p <= 1 # 2)%Q /\ (p - inject_Z i <= 1 # 2)%Q.
Proof. exists (round_half_even p). apply round_half_even_bound. Qed.

(* period 1: the periodised kernel is the constant 1 (a one-cell axis collects the whole weight) *)
Lemma Kper_g1 K p : kernel_like K ->
  (forall i, (inject_Z i - p <= 1 # 2)%Q -> (p - inject_Z i <= 1 # 2)%Q ->
     (K (inject_Z (i - 1) - p) + K (inject_Z i - p) + K (inject_Z (i + 1) - p) == 1)%Q) ->
  (Kper K 1 0 p == 1)%Q.
Proof.
  intros HK Hsum. destruct (nearest_exists p) as [i [H1 H2]].
  rewrite (three_point K 1 0 p i HK H1 H2). rewrite !Z.mod_1_r. cbn [delta Z.eqb].
  pose proof (Hsum i H1 H2) as E. lra.
Qed.

Lemma Kper_nonneg K g a p : kernel_like K -> (0 <= Kper K g a p)%Q.
Proof.
  intros HK. unfold Kper. induction (window p) as [|c t IH]; cbn [map Qsum]; [lra|].
  assert (0 <= Kterm K g a p c)%Q; [|lra].
  unfold Kterm. destruct (c mod g =? a); [apply (k_nonneg K HK)|lra].
Qed.

(* ---------------------------------------------------------------- whole-cell shifts *)
Lemma Qfloor_unique x n : (inject_Z n <= x)%Q -> (x < inject_Z (n + 1))%Q -> Qfloor x = n.
Proof.
  intros H1 H2. pose proof (Qfloor_le x) as Hf. pose proof (Qlt_floor x) as Hc.
  rewrite inject_Z_plus in H2, Hc. change (inject_Z 1) with 1%Q in *.
  assert (Qfloor x <= n) by (apply Zle_of_Qlt1; lra).
  assert (n <= Qfloor x) by (apply Zle_of_Qlt1; lra). lia.
Qed.

Lemma Qfloor_add_Z p t : Qfloor (p + inject_Z t) = Qfloor p + t.
Proof.
  pose proof (Qfloor_le p) as Hf. pose proof (Qlt_floor p) as Hc.
  apply Qfloor_unique; rewrite !inject_Z_plus in *; lra.
Qed.

Lemma cong_iff_ex a b m : m <> 0 -> (a mod m = b mod m <-> exists k, a = b + k * m).
Proof.
  intros Hm. split.
  - intros E. exists (a / m - b / m).
    pose proof (Z.div_mod a m Hm). pose proof (Z.div_mod b m Hm). nia.
  - intros [k ->]. apply Z_mod_plus_full.
Qed.

Lemma mod_shift_eqb g a c t : 0 < g -> 0 <= a < g -> ((c + t) mod g =? (a + t) mod g) = (c mod g =? a).
Proof.
  intros Hg Ha. apply Bool.eq_true_iff_eq. rewrite !Z.eqb_eq.
  rewrite <- (Z.mod_small a g) at 2 by lia.
  rewrite !cong_iff_ex by lia. split; intros [k E]; exists k; lia.
Qed.

Lemma Kterm_shift K g a p c t : Proper (Qeq ==> Qeq) K -> 0 < g -> 0 <= a < g ->
  (Kterm K g ((a + t) mod g) (p + inject_Z t) (c + t) == Kterm K g a p c)%Q.
Proof.
  intros HK Hg Ha. unfold Kterm. rewrite mod_shift_eqb by assumption.
  destruct (c mod g =? a); [|reflexivity].
  apply HK. rewrite inject_Z_plus. ring.
Qed.

(* shifting the particle by t whole cells moves its periodised kernel by t cells (mod g);
   t a multiple of g (crossing the periodic boundary) leaves it in place *)
Lemma Kper_shift K g a p t : Proper (Qeq ==> Qeq) K -> 0 < g -> 0 <= a < g ->
  (Kper K g ((a + t) mod g) (p + inject_Z t) == Kper K g a p)%Q.
Proof.
  intros HK Hg Ha. unfold Kper, window. rewrite Qfloor_add_Z. unfold zrange.
  cbn [seq map Qsum Z.of_nat Pos.of_succ_nat Pos.succ].
  repeat match goal with
    | |- context [Kterm K g ((a + t) mod g) (p + inject_Z t) (Qfloor p + t - 2 + ?k)] =>
        replace (Qfloor p + t - 2 + k) with (Qfloor p - 2 + k + t) by lia;
        rewrite (Kterm_shift K g a p (Qfloor p - 2 + k) t HK Hg Ha)
    end.
  reflexivity.
Qed.

Lemma Kper_proper K g a p p' : Proper (Qeq ==> Qeq) K -> (p == p')%Q -> (Kper K g a p == Kper K g a p')%Q.
Proof.
  intros HK E. unfold Kper, window. rewrite (Qfloor_comp _ _ E).
  induction (zrange (Qfloor p' - 2) 5) as [|c t IH]; cbn [map Qsum]; [reflexivity|].
  rewrite IH. apply Qplus_comp; [|reflexivity].
  unfold Kterm. destruct (c mod g =? a); [|reflexivity]. apply HK. rewrite E. reflexivity.
Qed.

Lemma Kper_period K g a p m : Proper (Qeq ==> Qeq) K -> 0 < g -> 0 <= a < g ->
  (Kper K g a (p + inject_Z (m * g)) == Kper K g a p)%Q.
Proof.
  intros HK Hg Ha. rewrite <- (Kper_shift K g a p (m * g) HK Hg Ha).
  rewrite Z_mod_plus_full. rewrite Z.mod_small by lia. reflexivity.
Qed.
