(* C06/KernelFacts.v — facts about the specification kernels (Spec.v) only: piecewise formulas, support,
   non-negativity, compatibility with ==, the window sum, periodisation under whole-cell shifts.
   Nothing here mentions the code. *)
From Coq Require Import ZArith QArith Qround Qabs List Bool Lia Lqa Morphisms.
From Abacus.Common Require Import Arr Num.
From Abacus.C06 Require Import Arr3 Spec Arr3Facts.
Import ListNotations.
Local Open Scope Z_scope.

Lemma Qle_bool_false a b : Qle_bool a b = false -> (b < a)%Q.
Proof.
  intros H. apply Qnot_le_lt. intros Hle. apply Qle_bool_iff in Hle. congruence.
Qed.

Ltac qbools :=
  repeat match goal with
    | |- context [Qle_bool ?a ?b] =>
        let E := fresh "E" in
        destruct (Qle_bool a b) eqn:E; [apply Qle_bool_iff in E | apply Qle_bool_false in E]
    | |- context [Qltb ?a ?b] =>
        let E := fresh "E" in
        destruct (Qltb a b) eqn:E; [apply Qltb_lt in E | apply Qltb_ge in E]
    end.

Lemma Qabs_sq x : (Qabs x * Qabs x == x * x)%Q.
Proof. apply Qabs_case; intros; ring. Qed.

(* integers vs rationals *)
Lemma Zle_of_Qlt1 a b : (inject_Z a < inject_Z b + 1)%Q -> a <= b.
Proof.
  intros H. assert (a < b + 1); [|lia]. rewrite Zlt_Qlt, inject_Z_plus. exact H.
Qed.

Lemma Qle_of_Zle a b : a <= b -> (inject_Z a <= inject_Z b)%Q.
Proof. intros H. rewrite <- Zle_Qle. exact H. Qed.

Lemma inject_Z_add1 i : (inject_Z (i + 1) == inject_Z i + 1)%Q.
Proof. rewrite inject_Z_plus. reflexivity. Qed.
Lemma inject_Z_sub1 i : (inject_Z (i - 1) == inject_Z i - 1)%Q.
Proof. unfold Z.sub. rewrite inject_Z_plus. reflexivity. Qed.
Lemma inject_Z_addk i k : (inject_Z (i + k) == inject_Z i + inject_Z k)%Q.
Proof. rewrite inject_Z_plus. reflexivity. Qed.

(* ---------------------------------------------------------------- K_tsc *)
Lemma K_tsc_mid x : (Qabs x <= 1 # 2)%Q -> (K_tsc x == (3 # 4) - x * x)%Q.
Proof.
  intros H. unfold K_tsc. cbv zeta. qbools; try lra. rewrite Qabs_sq. reflexivity.
Qed.

Lemma K_tsc_side x : (1 # 2 <= Qabs x)%Q -> (Qabs x <= 3 # 2)%Q ->
  (K_tsc x == (1 # 2) * ((3 # 2) - Qabs x) * ((3 # 2) - Qabs x))%Q.
Proof.
  intros H1 H2. unfold K_tsc. cbv zeta. qbools; try lra.
  assert (Qabs x == 1 # 2)%Q by lra. rewrite Qabs_sq. 
  assert (Hs : (x * x == Qabs x * Qabs x)%Q) by (symmetry; apply Qabs_sq). rewrite Hs. rewrite H. reflexivity.
Qed.

Lemma K_tsc_out x : (3 # 2 <= Qabs x)%Q -> (K_tsc x == 0)%Q.
Proof.
  intros H. unfold K_tsc. cbv zeta. qbools; try lra.
  assert (Hq : (Qabs x == 3 # 2)%Q) by lra. rewrite Hq. reflexivity.
Qed.

Lemma K_tsc_nonneg x : (0 <= K_tsc x)%Q.
Proof.
  unfold K_tsc. cbv zeta. pose proof (Qabs_nonneg x). qbools; try lra; nra.
Qed.

Global Instance K_tsc_proper : Proper (Qeq ==> Qeq) K_tsc.
Proof.
  intros x y E. assert (Ea : (Qabs x == Qabs y)%Q) by (rewrite E; reflexivity).
  unfold K_tsc. cbv zeta. qbools; try lra; rewrite ?Ea; reflexivity.
Qed.

(* ---------------------------------------------------------------- K_cic *)
Lemma K_cic_in x : (Qabs x <= 1)%Q -> (K_cic x == 1 - Qabs x)%Q.
Proof. intros H. unfold K_cic. cbv zeta. qbools; try lra. Qed.

Lemma K_cic_out x : (1 <= Qabs x)%Q -> (K_cic x == 0)%Q.
Proof. intros H. unfold K_cic. cbv zeta. qbools; try lra. Qed.

Lemma K_cic_nonneg x : (0 <= K_cic x)%Q.
Proof. unfold K_cic. cbv zeta. qbools; lra. Qed.

Global Instance K_cic_proper : Proper (Qeq ==> Qeq) K_cic.
Proof.
  intros x y E. assert (Ea : (Qabs x == Qabs y)%Q) by (rewrite E; reflexivity).
  unfold K_cic. cbv zeta. qbools; try lra.
Qed.

(* a kernel for the purposes of the generic lemmas *)
Record kernel_like (K : Q -> Q) : Prop := {
  k_proper : Proper (Qeq ==> Qeq) K;
  k_support : forall x, (3 # 2 <= Qabs x)%Q -> (K x == 0)%Q;
  k_nonneg : forall x, (0 <= K x)%Q
}.

Lemma K_tsc_kernel : kernel_like K_tsc.
Proof. split; [exact K_tsc_proper|exact K_tsc_out|exact K_tsc_nonneg]. Qed.

Lemma K_cic_kernel : kernel_like K_cic.
Proof.
  split; [exact K_cic_proper| |exact K_cic_nonneg].
  intros x H. apply K_cic_out. lra.
Qed.
