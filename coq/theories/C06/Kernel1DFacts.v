(* C06/Kernel1DFacts.v — the 1-D facts about the generated pieces (Gen.v) as assembled in Kernel1D.v.
   For each of the six axes (TSC x,y,z; CIC x,y,z):  if 1 - g <= round(p) <= 2g - 2 then the three indices handed to
   density[...] are in bounds and denote the cells (i-1) mod g, i mod g, (i+1) mod g, and the three weights are the
   kernel values K(i-1-p), K(i-p), K(i+1-p).  Independent of the 3-D model (C07 reuses this file). *)
From Coq Require Import ZArith QArith Qround Qabs List Bool Lia Lqa Morphisms.
From Abacus.Common Require Import Arr Num.
From Abacus.C06 Require Import Tab Arr3 Gen Kernel1D Spec Arr3Facts KernelFacts.
Import ListNotations.
Local Open Scope Z_scope.

Ltac ifs := repeat match goal with |- context [if ?c then _ else _] => let E := fresh "E" in destruct c eqn:E end.

(* ---- the right-wrap helpers: one conditional subtraction; together with numba's negative-index wrap the
        result addresses cell x mod g exactly for -g <= x <= 2g-1 *)
Lemma tsc_rightwrap_mod x g : 0 < g -> - g <= x <= 2 * g - 1 -> norm1 g (tsc_rightwrap x g) = Some (x mod g).
Proof.
  intros Hg Hx. unfold tsc_rightwrap. cbv zeta. ifs.
  all: try (rewrite norm1_mod by lia; f_equal; try reflexivity).
  all: try (apply cong_iff_ex; [lia | exists (-1); lia]).
Qed.

Lemma cic_rightwrap_mod x g : 0 < g -> - g <= x <= 2 * g - 1 -> norm1 g (cic_rightwrap x g) = Some (x mod g).
Proof.
  intros Hg Hx. unfold cic_rightwrap. cbv zeta. ifs.
  all: try (rewrite norm1_mod by lia; f_equal; try reflexivity).
  all: try (apply cong_iff_ex; [lia | exists (-1); lia]).
Qed.

(* ---- what "this axis record is right" means *)
Record axis_ok (K : Q -> Q) (g : Z) (a : axis1) : Prop := {
  ok_i1 : (inject_Z (a_i a) - a_p a <= 1 # 2)%Q;
  ok_i2 : (a_p a - inject_Z (a_i a) <= 1 # 2)%Q;
  ok_im1 : norm1 g (a_im1 a) = Some ((a_i a - 1) mod g);
  ok_iw : norm1 g (a_iw a) = Some (a_i a mod g);
  ok_ip1 : norm1 g (a_ip1 a) = Some ((a_i a + 1) mod g);
  ok_wm1 : (a_wm1 a == K (inject_Z (a_i a - 1) - a_p a))%Q;
  ok_w : (a_w a == K (inject_Z (a_i a) - a_p a))%Q;
  ok_wp1 : (a_wp1 a == K (inject_Z (a_i a + 1) - a_p a))%Q
}.

(* TSC weight identities, for a cell offset d = i - p with |d| <= 1/2 *)
Section TscWeights.
  Variables (p : Q) (i : Z).
  Hypothesis H1 : (inject_Z i - p <= 1 # 2)%Q.
  Hypothesis H2 : (p - inject_Z i <= 1 # 2)%Q.

  Lemma tsc_c_K : ((3 # 4) - (inject_Z i - p) ^ 2 == K_tsc (inject_Z i - p))%Q.
  Proof using H1 H2. rewrite K_tsc_mid by (apply Qabs_Qle_condition; lra). ring. Qed.

  Lemma tsc_m1_K : ((1 # 2) * ((1 # 2) + (inject_Z i - p)) ^ 2 == K_tsc (inject_Z (i - 1) - p))%Q.
  Proof using H1 H2.
    pose proof (inject_Z_sub1 i) as Em.
    rewrite K_tsc_side by (rewrite Qabs_neg by lra; lra). rewrite Qabs_neg by lra. rewrite Em. ring.
  Qed.

  Lemma tsc_p1_K : ((1 # 2) * ((1 # 2) - (inject_Z i - p)) ^ 2 == K_tsc (inject_Z (i + 1) - p))%Q.
  Proof using H1 H2.
    pose proof (inject_Z_add1 i) as Ep.
    rewrite K_tsc_side by (rewrite Qabs_pos by lra; lra). rewrite Qabs_pos by lra. rewrite Ep. ring.
  Qed.

  Lemma cic_c_K : (1 - Qabs (inject_Z i - p) == K_cic (inject_Z i - p))%Q.
  Proof using H1 H2. rewrite K_cic_in by (apply Qabs_Qle_condition; lra). reflexivity. Qed.

  Lemma cic_m1_K :
    ((if Qltb 0 (inject_Z i - p) then inject_Z i - p else 0) == K_cic (inject_Z (i - 1) - p))%Q.
  Proof using H1 H2.
    pose proof (inject_Z_sub1 i) as Em. qbools.
    - rewrite K_cic_in by (rewrite Qabs_neg by lra; lra). rewrite Qabs_neg by lra. rewrite Em. ring.
    - rewrite K_cic_out by (rewrite Qabs_neg by lra; lra). reflexivity.
  Qed.

  Lemma cic_p1_K :
    ((if Qltb 0 (inject_Z i - p) then 0 else - (inject_Z i - p)) == K_cic (inject_Z (i + 1) - p))%Q.
  Proof using H1 H2.
    pose proof (inject_Z_add1 i) as Ep. qbools.
    - rewrite K_cic_out by (rewrite Qabs_pos by lra; lra). reflexivity.
    - rewrite K_cic_in by (rewrite Qabs_pos by lra; lra). rewrite Qabs_pos by lra. rewrite Ep. ring.
  Qed.
End TscWeights.

Ltac axis_tac wrapmod cK m1K p1K :=
  let Hg := fresh "Hg" in let Hlo := fresh "Hlo" in let Hhi := fresh "Hhi" in
  let B1 := fresh "B" in let B2 := fresh "B" in
  intros Hg [Hlo Hhi]; cbv zeta in *;
  match goal with |- axis_ok _ _ (mk_axis1 ?p _ _ _ _ _ _ _ _) =>
    pose proof (round_half_even_bound p) as [B1 B2];
    constructor; cbn [a_p a_i a_d a_im1 a_iw a_ip1 a_wm1 a_w a_wp1];
    [ exact B1 | exact B2
    | apply wrapmod; [exact Hg | lia] | apply wrapmod; [exact Hg | lia] | apply wrapmod; [exact Hg | lia]
    | rewrite <- (m1K p _ B1 B2); try reflexivity; ring
    | rewrite <- (cK p _ B1 B2); try reflexivity; ring
    | rewrite <- (p1K p _ B1 B2); try reflexivity; ring ]
  end.

Lemma tsc_axis_x_ok pos off box g :
  0 < g -> i_ok g (tsc_ix (tsc_px pos off g box)) -> axis_ok K_tsc g (tsc_axis_x pos off box g).
Proof.
  unfold tsc_axis_x, i_ok, tsc_ix, tsc_dx, tsc_ixm1, tsc_ixw, tsc_ixp1, tsc_wx, tsc_wxm1, tsc_wxp1, tsc_HALF, tsc_P75.
  axis_tac tsc_rightwrap_mod tsc_c_K tsc_m1_K tsc_p1_K.
Qed.

Lemma tsc_axis_y_ok pos off box g :
  0 < g -> i_ok g (tsc_iy (tsc_py pos off g box)) -> axis_ok K_tsc g (tsc_axis_y pos off box g).
Proof.
  unfold tsc_axis_y, i_ok, tsc_iy, tsc_dy, tsc_iym1, tsc_iyw, tsc_iyp1, tsc_wy, tsc_wym1, tsc_wyp1, tsc_HALF, tsc_P75.
  axis_tac tsc_rightwrap_mod tsc_c_K tsc_m1_K tsc_p1_K.
Qed.

Lemma tsc_axis_z_ok pos off box g :
  0 < g -> i_ok g (tsc_iz (tsc_pz pos off g box)) -> axis_ok K_tsc g (tsc_axis_z pos off box g).
Proof.
  unfold tsc_axis_z, i_ok, tsc_iz, tsc_dz, tsc_izm1, tsc_izw, tsc_izp1, tsc_wz, tsc_wzm1, tsc_wzp1, tsc_HALF, tsc_P75.
  axis_tac tsc_rightwrap_mod tsc_c_K tsc_m1_K tsc_p1_K.
Qed.

Lemma cic_axis_x_ok pos box g :
  0 < g -> i_ok g (cic_ix (cic_px pos g box)) -> axis_ok K_cic g (cic_axis_x pos box g).
Proof.
  unfold cic_axis_x, i_ok, cic_ix, cic_dx, cic_ixm1, cic_ixw, cic_ixp1, cic_wx, cic_wxm1, cic_wxp1.
  axis_tac cic_rightwrap_mod cic_c_K cic_m1_K cic_p1_K.
Qed.

Lemma cic_axis_y_ok pos box g :
  0 < g -> i_ok g (cic_iy (cic_py pos g box)) -> axis_ok K_cic g (cic_axis_y pos box g).
Proof.
  unfold cic_axis_y, i_ok, cic_iy, cic_dy, cic_iym1, cic_iyw, cic_iyp1, cic_wy, cic_wym1, cic_wyp1.
  axis_tac cic_rightwrap_mod cic_c_K cic_m1_K cic_p1_K.
Qed.

Lemma cic_axis_z_ok pos box g :
  0 < g -> i_ok g (cic_iz (cic_pz pos g box)) -> axis_ok K_cic g (cic_axis_z pos box g).
Proof.
  unfold cic_axis_z, i_ok, cic_iz, cic_dz, cic_izm1, cic_izw, cic_izp1, cic_wz, cic_wzm1, cic_wzp1.
  axis_tac cic_rightwrap_mod cic_c_K cic_m1_K cic_p1_K.
Qed.

(* ---- consequences of axis_ok *)
Definition D (g : Z) (a : axis1) (c : Z) : Q :=
  (delta (norm1 g (a_im1 a)) c * a_wm1 a + delta (norm1 g (a_iw a)) c * a_w a
   + delta (norm1 g (a_ip1 a)) c * a_wp1 a)%Q.

Lemma D_Kper K g a c : kernel_like K -> axis_ok K g a -> (D g a c == Kper K g c (a_p a))%Q.
Proof.
  intros HK H. unfold D. rewrite (ok_im1 _ _ _ H), (ok_iw _ _ _ H), (ok_ip1 _ _ _ H).
  rewrite (ok_wm1 _ _ _ H), (ok_w _ _ _ H), (ok_wp1 _ _ _ H).
  symmetry. apply three_point; [exact HK|apply (ok_i1 _ _ _ H)|apply (ok_i2 _ _ _ H)].
Qed.

Lemma axis_ok_nonneg K g a : kernel_like K -> axis_ok K g a ->
  (0 <= a_wm1 a)%Q /\ (0 <= a_w a)%Q /\ (0 <= a_wp1 a)%Q.
Proof.
  intros HK H. rewrite (ok_wm1 _ _ _ H), (ok_w _ _ _ H), (ok_wp1 _ _ _ H).
  repeat split; apply (k_nonneg K HK).
Qed.

Lemma axis_ok_tsc_sum1 g a : axis_ok K_tsc g a -> (a_wm1 a + a_w a + a_wp1 a == 1)%Q.
Proof.
  intros H. rewrite (ok_wm1 _ _ _ H), (ok_w _ _ _ H), (ok_wp1 _ _ _ H).
  apply K_tsc_sum1; [apply (ok_i1 _ _ _ H)|apply (ok_i2 _ _ _ H)].
Qed.

Lemma axis_ok_cic_sum1 g a : axis_ok K_cic g a -> (a_wm1 a + a_w a + a_wp1 a == 1)%Q.
Proof.
  intros H. rewrite (ok_wm1 _ _ _ H), (ok_w _ _ _ H), (ok_wp1 _ _ _ H).
  apply K_cic_sum1; [apply (ok_i1 _ _ _ H)|apply (ok_i2 _ _ _ H)].
Qed.

(* the rows (cells along the axis) a particle touches: the three residues around the nearest cell *)
Lemma rows_touched_ok K g a : axis_ok K g a ->
  rows_touched g a = [Some ((a_i a - 1) mod g); Some (a_i a mod g); Some ((a_i a + 1) mod g)].
Proof.
  intros H. unfold rows_touched, cell_of. rewrite (ok_im1 _ _ _ H), (ok_iw _ _ _ H), (ok_ip1 _ _ _ H). reflexivity.
Qed.

(* ---- from the documented domain to the admissible range of the nearest cell *)
Lemma round_half_even_comp p p' : (p == p')%Q -> round_half_even p = round_half_even p'.
Proof.
  intros E. unfold round_half_even. rewrite (Qfloor_comp _ _ E). unfold Qltb.
  assert (E2 : (p - inject_Z (Qfloor p') == p' - inject_Z (Qfloor p'))%Q) by (rewrite E; reflexivity).
  rewrite !(Qleb_comp _ _ (Qeq_refl (1 # 2)) _ _ E2). rewrite !(Qleb_comp _ _ E2 _ _ (Qeq_refl (1 # 2))). reflexivity.
Qed.

Lemma i_ok_of_range g p : 3 <= g -> (0 <= p)%Q -> (p < inject_Z g + 1)%Q -> i_ok g (round_half_even p).
Proof.
  intros Hg H0 H1. destruct (round_half_even_bound p) as [B1 B2]. unfold i_ok.
  assert (0 <= round_half_even p) by (apply Zle_of_Qlt1; change (inject_Z 0) with 0%Q; lra).
  assert (round_half_even p <= g + 1).
  { apply Zle_of_Qlt1. rewrite inject_Z_plus. change (inject_Z 1) with 1%Q. lra. }
  lia.
Qed.

Lemma i_ok_of_range0 g p : 2 <= g -> (0 <= p)%Q -> (p <= inject_Z g)%Q -> i_ok g (round_half_even p).
Proof.
  intros Hg H0 H1. destruct (round_half_even_bound p) as [B1 B2]. unfold i_ok.
  assert (0 <= round_half_even p) by (apply Zle_of_Qlt1; change (inject_Z 0) with 0%Q; lra).
  assert (round_half_even p <= g) by (apply Zle_of_Qlt1; lra).
  lia.
Qed.

Lemma grid_coord_range pos off box g :
  0 < g -> (0 < box)%Q -> (0 <= pos)%Q -> (pos <= box)%Q -> (0 <= off)%Q -> (off * inject_Z g < box)%Q ->
  (0 <= grid_coord pos off box g)%Q /\ (grid_coord pos off box g < inject_Z g + 1)%Q.
Proof.
  intros Hg Hb H0 H1 Ho Hh. unfold grid_coord.
  assert (HG : (0 < inject_Z g)%Q) by (change 0%Q with (inject_Z 0); rewrite <- Zlt_Qlt; exact Hg).
  split.
  - apply Qle_shift_div_l; [exact Hb|]. nra.
  - apply Qlt_shift_div_r; [exact Hb|]. nra.
Qed.

(* any sub-cell offset, negative ones included: |off| < one cell *)
Lemma i_ok_of_range_signed g p : 3 <= g -> (-1 < p)%Q -> (p < inject_Z g + 1)%Q -> i_ok g (round_half_even p).
Proof.
  intros Hg H0 H1. destruct (round_half_even_bound p) as [B1 B2]. unfold i_ok.
  assert (-1 <= round_half_even p).
  { apply Zle_of_Qlt1. change (inject_Z (-1)) with (-1)%Q. lra. }
  assert (round_half_even p <= g + 1).
  { apply Zle_of_Qlt1. rewrite inject_Z_plus. change (inject_Z 1) with 1%Q. lra. }
  lia.
Qed.

Lemma grid_coord_range_signed pos off box g :
  0 < g -> (0 < box)%Q -> (0 <= pos)%Q -> (pos <= box)%Q -> (- box < off * inject_Z g)%Q -> (off * inject_Z g < box)%Q ->
  (-1 < grid_coord pos off box g)%Q /\ (grid_coord pos off box g < inject_Z g + 1)%Q.
Proof.
  intros Hg Hb H0 H1 Ho Hh. unfold grid_coord.
  assert (HG : (0 < inject_Z g)%Q) by (change 0%Q with (inject_Z 0); rewrite <- Zlt_Qlt; exact Hg).
  split.
  - apply Qlt_shift_div_l; [exact Hb|]. nra.
  - apply Qlt_shift_div_r; [exact Hb|]. nra.
Qed.

Lemma grid_coord_range0 pos box g :
  0 < g -> (0 < box)%Q -> (0 <= pos)%Q -> (pos <= box)%Q ->
  (0 <= grid_coord pos 0 box g)%Q /\ (grid_coord pos 0 box g <= inject_Z g)%Q.
Proof.
  intros Hg Hb H0 H1. unfold grid_coord.
  assert (HG : (0 < inject_Z g)%Q) by (change 0%Q with (inject_Z 0); rewrite <- Zlt_Qlt; exact Hg).
  split.
  - apply Qle_shift_div_l; [exact Hb|]. nra.
  - apply Qle_shift_div_r; [exact Hb|]. nra.
Qed.

(* a whole-cell shift of the position is a whole-number shift of the grid coordinate *)
Lemma grid_coord_shift pos off box g t : 0 < g -> (0 < box)%Q ->
  (grid_coord (pos + inject_Z t * (box / inject_Z g)) off box g == grid_coord pos off box g + inject_Z t)%Q.
Proof.
  intros Hg Hb. unfold grid_coord.
  assert (HG : (0 < inject_Z g)%Q) by (change 0%Q with (inject_Z 0); rewrite <- Zlt_Qlt; exact Hg).
  field. split; lra.
Qed.

(* the generated grid-coordinate expressions are the specification's *)
Lemma tsc_px_spec pos off g box : (0 < box)%Q -> (tsc_px pos off g box == grid_coord pos off box g)%Q.
Proof. intros Hb. unfold tsc_px, grid_coord. field. lra. Qed.
Lemma tsc_py_spec pos off g box : (0 < box)%Q -> (tsc_py pos off g box == grid_coord pos off box g)%Q.
Proof. intros Hb. unfold tsc_py, grid_coord. field. lra. Qed.
Lemma tsc_pz_spec pos off g box : (0 < box)%Q -> (tsc_pz pos off g box == grid_coord pos off box g)%Q.
Proof. intros Hb. unfold tsc_pz, grid_coord. field. lra. Qed.
Lemma cic_px_spec pos g box : (0 < box)%Q -> (cic_px pos g box == grid_coord pos 0 box g)%Q.
Proof. intros Hb. unfold cic_px, grid_coord. field. lra. Qed.
Lemma cic_py_spec pos g box : (0 < box)%Q -> (cic_py pos g box == grid_coord pos 0 box g)%Q.
Proof. intros Hb. unfold cic_py, grid_coord. field. lra. Qed.
Lemma cic_pz_spec pos g box : (0 < box)%Q -> (cic_pz pos g box == grid_coord pos 0 box g)%Q.
Proof. intros Hb. unfold cic_pz, grid_coord. field. lra. Qed.
