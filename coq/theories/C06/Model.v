(* C06/Model.v — the executable model of _tsc_scatter / cic_serial / the wrap of tsc_parallel (no proofs).

   One particle: the three 1-D models (Kernel1D.v, from generated pieces), then the generated deposit table rows in
   source order, each a checked read-modify-write  density[i0, i1, i2] += product of the named factors.
   All particles: a left fold, accumulating into the supplied grid. *)
From Coq Require Import ZArith QArith List Bool.
From Abacus.Common Require Import Arr Num.
From Abacus.C06 Require Import Tab Arr3 Gen Kernel1D.
Import ListNotations.
Local Open Scope Z_scope.
Local Open Scope res_scope.

Definition axes := (axis1 * axis1 * axis1)%type.
Definition pick (A : axes) (a : ax) : axis1 :=
  match a with AX => fst (fst A) | AY => snd (fst A) | AZ => snd A end.

Definition isel (A : axes) (n : iname) : Z := a_isel (pick A (fst n)) (snd n).
Definition wval (A : axes) (W : Q) (n : wname) : Q :=
  match n with WA a s => a_wsel (pick A a) s | WW => W end.
(* a * b * c * d parses as ((a * b) * c) * d *)
Definition wprod (A : axes) (W : Q) (l : list wname) : Q :=
  match l with
  | [] => 1
  | n :: t => fold_left (fun acc m => acc * wval A W m)%Q t (wval A W n)
  end.

Definition deposit_row (A : axes) (W : Q) (G : arr3 Q) (r : row) : res (arr3 Q) :=
  upd3 G (isel A (r_i0 r)) (isel A (r_i1 r)) (isel A (r_i2 r)) (fun v => v + wprod A W (r_w r))%Q.

Fixpoint deposit_rows (A : axes) (W : Q) (rows : list row) (G : arr3 Q) : res (arr3 Q) :=
  match rows with
  | [] => Ok G
  | r :: t => G' <- deposit_row A W G r ;; deposit_rows A W t G'
  end.

Definition particle := (Q * Q * Q * Q)%type.   (* x, y, z, weight (ignored when weights is None) *)

(* positions[n, col] *)
Definition coord (p : particle) (col : Z) : res Q :=
  let '(x, y, z, _) := p in
  match norm1 3 col with
  | Some 0 => Ok x | Some 1 => Ok y | Some 2 => Ok z | _ => Oob
  end.

Definition tsc_scatter1 (box offset : Q) (have_W : bool) (p : particle) (G : arr3 Q) : res (arr3 Q) :=
  let gx := tsc_gx G in let gy := tsc_gy G in let gz := tsc_gz G in
  let threeD := tsc_threeD 3 gz in       (* density is a 3-D array (a 2-D ndarray does not type-check in numba) *)
  x <- coord p tsc_col_x ;; y <- coord p tsc_col_y ;;
  z <- (if threeD then coord p tsc_col_z else Ok 0%Q) ;;
  let A := (tsc_axis_x x offset box gx, tsc_axis_y y offset box gy,
            if threeD then tsc_axis_z z offset box gz else axis_2d tsc_izw_2d tsc_wz_2d) in
  let W := if have_W then tsc_W_given (snd p) else tsc_W_default in
  deposit_rows A W (tsc_table_2d ++ (if threeD then tsc_table_3d else [])) G.

Definition cic_scatter1 (box : Q) (have_W : bool) (p : particle) (G : arr3 Q) : res (arr3 Q) :=
  let gx := cic_gx G in let gy := cic_gy G in let gz := cic_gz G in
  let threeD := cic_threeD 3 gz in
  x <- coord p cic_col_x ;; y <- coord p cic_col_y ;;
  z <- (if threeD then coord p cic_col_z else Ok 0%Q) ;;
  let A := (cic_axis_x x box gx, cic_axis_y y box gy,
            if threeD then cic_axis_z z box gz else axis_2d cic_izw_2d cic_wz_2d) in
  let W := if have_W then cic_W_given (snd p) else cic_W_default in
  deposit_rows A W (cic_table_2d ++ (if threeD then cic_table_3d else [])) G.

(* offset is a parameter of the TSC kernel only *)
Definition scatter1 (k : kind) (box offset : Q) (have_W : bool) (p : particle) (G : arr3 Q) : res (arr3 Q) :=
  match k with TSC => tsc_scatter1 box offset have_W p G | CIC => cic_scatter1 box have_W p G end.

Fixpoint scatter (k : kind) (box offset : Q) (have_W : bool) (ps : list particle) (G : arr3 Q) : res (arr3 Q) :=
  match ps with
  | [] => Ok G
  | p :: t => G' <- scatter1 k box offset have_W p G ;; scatter k box offset have_W t G'
  end.

(* tsc_parallel(pos, densgrid, box, weights, wrap=..., offset=...): optional in-place wrap, then the deposit of all
   particles (in exact arithmetic the stripe partition only permutes them; C07 is about that) *)
Definition wrap_particle (box : Q) (p : particle) : particle :=
  let '(x, y, z, w) := p in (tsc_wrap1 x box, tsc_wrap1 y box, tsc_wrap1 z box, w).

Definition tsc_parallel_model (box offset : Q) (have_W wrap : bool) (ps : list particle) (G : arr3 Q) : res (arr3 Q) :=
  scatter TSC box offset have_W (if wrap then map (wrap_particle box) ps else ps) G.
