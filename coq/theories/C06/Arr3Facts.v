(* C06/Arr3Facts.v — lemmas about checked 3-D arrays over Q: a read-modify-write at an in-range index succeeds,
   changes exactly that cell, keeps shape and well-formedness, and moves the grand total by the increment. *)
From Coq Require Import ZArith QArith Qround Qabs List Bool Lia Lqa ZifyBool.
From Abacus.Common Require Import Arr Num.
From Abacus.C06 Require Import Arr3 Spec.
Import ListNotations.
Local Open Scope Z_scope.

Lemma norm1_some n i k : norm1 n i = Some k -> 0 <= k < n.
Proof.
  unfold norm1. destruct ((0 <=? i) && (i <? n)) eqn:E1.
  - intros H; inversion H; subst. lia.
  - destruct ((- n <=? i) && (i <? 0)) eqn:E2; [|discriminate]. intros H; inversion H; subst. lia.
Qed.

Lemma norm1_pos n i : 0 <= i < n -> norm1 n i = Some i.
Proof. intros H. unfold norm1. replace ((0 <=? i) && (i <? n)) with true by lia. reflexivity. Qed.

Lemma norm1_neg n i : - n <= i < 0 -> norm1 n i = Some (i + n).
Proof.
  intros H. unfold norm1. replace ((0 <=? i) && (i <? n)) with false by lia.
  replace ((- n <=? i) && (i <? 0)) with true by lia. reflexivity.
Qed.

Lemma norm1_none n i : i < - n \/ n <= i -> norm1 n i = None.
Proof.
  intros H. unfold norm1. replace ((0 <=? i) && (i <? n)) with false by lia.
  replace ((- n <=? i) && (i <? 0)) with false by lia. reflexivity.
Qed.

Lemma norm1_mod n i : 0 < n -> - n <= i < n -> norm1 n i = Some (i mod n).
Proof.
  intros Hn H. destruct (Z_lt_ge_dec i 0).
  - rewrite norm1_neg by lia. f_equal. apply Z.mod_unique with (q := -1); lia.
  - rewrite norm1_pos by lia. f_equal. symmetry. apply Z.mod_small; lia.
Qed.

(* row-major flattening is injective on in-range triples *)
Lemma flat2_inj n a b a' b' :
  0 <= b < n -> 0 <= b' < n -> a * n + b = a' * n + b' -> a = a' /\ b = b'.
Proof.
  intros Hb Hb' E.
  assert (a = a').
  { destruct (Z.lt_trichotomy a a') as [H|[H|H]]; [exfalso|exact H|exfalso].
    - assert (a + 1 <= a') by lia. assert ((a + 1) * n <= a' * n) by (apply Z.mul_le_mono_nonneg_r; lia). lia.
    - assert (a' + 1 <= a) by lia. assert ((a' + 1) * n <= a * n) by (apply Z.mul_le_mono_nonneg_r; lia). lia. }
  subst. lia.
Qed.

Lemma flat3_inj n1 n2 i j k i' j' k' :
  0 <= j < n1 -> 0 <= j' < n1 -> 0 <= k < n2 -> 0 <= k' < n2 ->
  (i * n1 + j) * n2 + k = (i' * n1 + j') * n2 + k' -> i = i' /\ j = j' /\ k = k'.
Proof.
  intros Hj Hj' Hk Hk' E.
  destruct (flat2_inj n2 _ _ _ _ Hk Hk' E) as [E1 E2].
  destruct (flat2_inj n1 _ _ _ _ Hj Hj' E1) as [E3 E4]. auto.
Qed.

Lemma flat3_range n0 n1 n2 i j k :
  0 <= i < n0 -> 0 <= j < n1 -> 0 <= k < n2 -> 0 <= (i * n1 + j) * n2 + k < n0 * n1 * n2.
Proof.
  intros Hi Hj Hk.
  assert (A0 : 0 <= i * n1) by (apply Z.mul_nonneg_nonneg; lia).
  assert (A1 : (i + 1) * n1 <= n0 * n1) by (apply Z.mul_le_mono_nonneg_r; lia).
  assert (A2 : 0 <= (i * n1 + j) * n2) by (apply Z.mul_nonneg_nonneg; lia).
  assert (A3 : (i * n1 + j + 1) * n2 <= (n0 * n1) * n2) by (apply Z.mul_le_mono_nonneg_r; lia).
  lia.
Qed.

Lemma Qsum_app l1 l2 : (Qsum (l1 ++ l2) == Qsum l1 + Qsum l2)%Q.
Proof. induction l1 as [|x t IH]; cbn [Qsum app]; [ring|]. rewrite IH. ring. Qed.

Lemma Qsum_set_nth l k v : (k < length l)%nat -> (Qsum (set_nth l k v) == Qsum l - nth k l 0 + v)%Q.
Proof.
  revert k; induction l as [|h t IH]; intros k Hk; cbn [length] in Hk; [lia|].
  destruct k as [|k]; cbn [set_nth Qsum nth]; [ring|]. rewrite IH by lia. ring.
Qed.

Section Upd.
  Variable G : arr3 Q.
  Hypothesis Hwf : wf3 G.

  Lemma upd3_spec i j k i' j' k' f :
    norm1 (d0 G) i = Some i' -> norm1 (d1 G) j = Some j' -> norm1 (d2 G) k = Some k' ->
    exists G', upd3 G i j k f = Ok G' /\ wf3 G' /\ dims3 G' = dims3 G /\
      (forall a b c, in_grid G a b c ->
         cell G' a b c = if (a =? i') && (b =? j') && (c =? k') then f (cell G i' j' k') else cell G a b c) /\
      (total G' == total G - cell G i' j' k' + f (cell G i' j' k'))%Q.
  Proof.
    intros Hi Hj Hk. destruct Hwf as (H0 & H1 & H2 & Hlen).
    pose proof (norm1_some _ _ _ Hi) as Ri. pose proof (norm1_some _ _ _ Hj) as Rj.
    pose proof (norm1_some _ _ _ Hk) as Rk.
    pose proof (flat3_range _ _ _ _ _ _ Ri Rj Rk) as Rf.
    set (n := (i' * d1 G + j') * d2 G + k') in *.
    assert (Hget : get3 G i j k = Ok (cell G i' j' k')).
    { unfold get3, flat3. rewrite Hi, Hj, Hk. fold n. unfold cell. fold n.
      apply get_ok_nth. lia. }
    assert (Hn : (Z.to_nat n < length (dat G))%nat) by (unfold len in Hlen; lia).
    exists (mk3 (d0 G) (d1 G) (d2 G) (set_nth (dat G) (Z.to_nat n) (f (cell G i' j' k')))).
    split; [|split; [|split; [|split]]].
    - unfold upd3. rewrite Hget. cbn [bind]. unfold set3, flat3. rewrite Hi, Hj, Hk. fold n.
      rewrite set_ok by lia. reflexivity.
    - unfold wf3; cbn [d0 d1 d2 dat]. unfold len. rewrite set_nth_length. fold (len (dat G)). auto.
    - reflexivity.
    - intros a b c (Ra & Rb & Rc). unfold cell; cbn [d0 d1 d2 dat].
      destruct ((a =? i') && (b =? j') && (c =? k')) eqn:E.
      + assert (a = i' /\ b = j' /\ c = k') as (-> & -> & ->) by lia. fold n. apply set_nth_nth. exact Hn.
      + apply set_nth_nth_other. intros Heq.
        pose proof (flat3_range _ _ _ _ _ _ Ra Rb Rc) as Rabc.
        apply Z2Nat.inj in Heq; try lia.
        unfold n in Heq. symmetry in Heq. apply flat3_inj in Heq; lia.
    - unfold total; cbn [dat]. rewrite Qsum_set_nth by exact Hn. unfold cell. fold n. reflexivity.
  Qed.

  Lemma upd3_oob i j k f :
    norm1 (d0 G) i = None \/ norm1 (d1 G) j = None \/ norm1 (d2 G) k = None -> upd3 G i j k f = Oob.
  Proof.
    intros H. unfold upd3, get3, flat3.
    destruct (norm1 (d0 G) i), (norm1 (d1 G) j), (norm1 (d2 G) k); try reflexivity;
      destruct H as [H|[H|H]]; discriminate.
  Qed.
End Upd.

Lemma zeros3_wf n0 n1 n2 : 0 <= n0 -> 0 <= n1 -> 0 <= n2 -> wf3 (zeros3 0%Q n0 n1 n2).
Proof.
  intros. unfold wf3, zeros3; cbn [d0 d1 d2 dat]. repeat split; try assumption.
  unfold len. rewrite repeat_length. nia.
Qed.

Lemma zeros3_cell n0 n1 n2 a b c : cell (zeros3 0%Q n0 n1 n2) a b c = 0%Q.
Proof.
  unfold cell, zeros3; cbn [d0 d1 d2 dat].
  generalize (Z.to_nat ((a * n1 + b) * n2 + c)) as k. generalize (Z.to_nat (n0 * n1 * n2)) as m.
  induction m as [|m IH]; intros [|k]; cbn; auto.
Qed.
