(* C06/Properties.v — the property theorems.  They are about the definitions regenerated from
   abacusnbody/analysis/tsc.py and cic.py (Gen.v) as assembled in Kernel1D.v / Model.v, over exact rationals.
   Nothing but statements closed by `exact` and their assumptions.

   Vocabulary (Spec.v): a particle is (x, y, z, w); grid_coord x off box g = (x + off) * g / box is its position in cells;
   near = round-half-even of that; i_ok g i := 1 - g <= i <= 2g - 2; adm k box off gx gy gz p: i_ok along every axis
   (CIC: offset 0, and a one-cell-thick z axis is always fine); Kper K g a p: the kernel K centred on p, periodised
   with period g, at cell a; contrib K .. a b c (px,py,pz,w) = w * Kper(a;px) * Kper(b;py) * Kper(c;pz);
   many_spec K G r pws: r = Ok G', same shape, cell G' = cell G + sum of contrib, total G' = total G + sum of weights. *)
From Coq Require Import ZArith QArith List Permutation.
From Abacus.Common Require Import Arr Num.
From Abacus.C06 Require Import Tab Arr3 Gen Kernel1D Model Spec KernelFacts Kernel1DFacts Proofs Corollaries.
Import ListNotations.
Local Open Scope Z_scope.

(* ★ indices_in_bounds: under the exact per-axis condition every one of the 27 (9) read-modify-writes of every particle is
   in bounds (Ok, never Oob), for TSC and CIC, any grid shape, any initial content.  The condition is exact for the
   unchanged code: Findings.v shows Oob outside it (one-cell-thick axis; two-cell axis with an offset). *)
Theorem indices_in_bounds : forall k box off hw ps G,
  wf3 G -> 0 < d0 G -> 0 < d1 G -> 0 < d2 G -> (0 < box)%Q -> Forall (adm k box off (d0 G) (d1 G) (d2 G)) ps ->
  exists G', scatter k box off hw ps G = Ok G' /\ wf3 G' /\ dims3 G' = dims3 G.
Proof. exact indices_in_bounds_lemma. Qed.
Print Assumptions indices_in_bounds.

(* the documented domain satisfies the condition: 0 <= pos <= box (pos = box included), 0 <= offset < cell, g >= 3 *)
Theorem domain_admissible_tsc : forall box off n0 n1 n2 x y z w,
  (0 < box)%Q -> (0 <= off)%Q -> 3 <= n0 -> 3 <= n1 -> 3 <= n2 ->
  (off * inject_Z n0 < box)%Q -> (off * inject_Z n1 < box)%Q -> (off * inject_Z n2 < box)%Q ->
  (0 <= x)%Q /\ (x <= box)%Q -> (0 <= y)%Q /\ (y <= box)%Q -> (0 <= z)%Q /\ (z <= box)%Q ->
  adm TSC box off n0 n1 n2 (x, y, z, w).
Proof. exact domain_adm_tsc_lemma. Qed.
Print Assumptions domain_admissible_tsc.

(* without an offset two cells per axis suffice *)
(* ... and for ANY sub-cell offset, negative ones included (|offset| < one cell along every axis): a particle within
   |offset| of the lower face has grid coordinate in (-1, 0), its nearest cell is -1 or 0 and the cloud {-2,-1,0} is
   reached through numba's negative-index wrap *)
Theorem domain_admissible_tsc_signed_offset : forall box off n0 n1 n2 x y z w,
  (0 < box)%Q -> 3 <= n0 -> 3 <= n1 -> 3 <= n2 ->
  (- box < off * inject_Z n0)%Q /\ (off * inject_Z n0 < box)%Q ->
  (- box < off * inject_Z n1)%Q /\ (off * inject_Z n1 < box)%Q ->
  (- box < off * inject_Z n2)%Q /\ (off * inject_Z n2 < box)%Q ->
  (0 <= x)%Q /\ (x <= box)%Q -> (0 <= y)%Q /\ (y <= box)%Q -> (0 <= z)%Q /\ (z <= box)%Q ->
  adm TSC box off n0 n1 n2 (x, y, z, w).
Proof. exact domain_adm_tsc_signed_lemma. Qed.
Print Assumptions domain_admissible_tsc_signed_offset.

Theorem domain_admissible_tsc_no_offset : forall box n0 n1 n2 x y z w,
  (0 < box)%Q -> 2 <= n0 -> 2 <= n1 -> 2 <= n2 ->
  (0 <= x)%Q /\ (x <= box)%Q -> (0 <= y)%Q /\ (y <= box)%Q -> (0 <= z)%Q /\ (z <= box)%Q ->
  adm TSC box 0 n0 n1 n2 (x, y, z, w).
Proof. exact domain_adm_tsc_no_offset_lemma. Qed.
Print Assumptions domain_admissible_tsc_no_offset.

(* CIC (no offset parameter): two cells per axis, or a one-cell-thick z axis (its 2-D mode) *)
Theorem domain_admissible_cic : forall box off n0 n1 n2 x y z w,
  (0 < box)%Q -> 2 <= n0 -> 2 <= n1 -> n2 = 1 \/ 2 <= n2 ->
  (0 <= x)%Q /\ (x <= box)%Q -> (0 <= y)%Q /\ (y <= box)%Q -> (0 <= z)%Q /\ (z <= box)%Q ->
  adm CIC box off n0 n1 n2 (x, y, z, w).
Proof. exact domain_adm_cic_lemma. Qed.
Print Assumptions domain_admissible_cic.

(* ★ kernel_form: each cell changes by the sum over particles of w * K(a;px) K(b;py) K(c;pz), K the periodised quadratic
   (TSC) / linear (CIC) B-spline centred on the particle; the right-hand side does not mention the rounding. *)
Theorem kernel_form : forall k box off hw ps G,
  wf3 G -> 0 < d0 G -> 0 < d1 G -> 0 < d2 G -> (0 < box)%Q -> Forall (adm k box off (d0 G) (d1 G) (d2 G)) ps ->
  many_spec (Kof k) G (scatter k box off hw ps G) (map (gc3 box (offof k off) hw (d0 G) (d1 G) (d2 G)) ps).
Proof. exact scatter_spec. Qed.
Print Assumptions kernel_form.

(* ... independent of how the .5 tie is rounded: any nearest cell i gives the same three-point deposit *)
Theorem tie_rounding_irrelevant : forall K g a p i i', kernel_like K ->
  (inject_Z i - p <= 1 # 2)%Q -> (p - inject_Z i <= 1 # 2)%Q ->
  (inject_Z i' - p <= 1 # 2)%Q -> (p - inject_Z i' <= 1 # 2)%Q ->
  (delta (Some ((i - 1) mod g)) a * K (inject_Z (i - 1) - p) + delta (Some (i mod g)) a * K (inject_Z i - p)
   + delta (Some ((i + 1) mod g)) a * K (inject_Z (i + 1) - p)
   == delta (Some ((i' - 1) mod g)) a * K (inject_Z (i' - 1) - p) + delta (Some (i' mod g)) a * K (inject_Z i' - p)
      + delta (Some ((i' + 1) mod g)) a * K (inject_Z (i' + 1) - p))%Q.
Proof. exact tie_irrelevant_lemma. Qed.
Print Assumptions tie_rounding_irrelevant.

(* the 1-D statement (reused by C07): a right axis record deposits the periodised kernel *)
Theorem kernel_form_1d : forall K g a c, kernel_like K -> axis_ok K g a -> (D g a c == Kper K g c (a_p a))%Q.
Proof. exact D_Kper. Qed.
Print Assumptions kernel_form_1d.

(* ★ conserves: the grid total grows by exactly the total weight *)
Theorem conserves : forall k box off hw ps G,
  wf3 G -> 0 < d0 G -> 0 < d1 G -> 0 < d2 G -> (0 < box)%Q -> Forall (adm k box off (d0 G) (d1 G) (d2 G)) ps ->
  exists G', scatter k box off hw ps G = Ok G' /\ (total G' == total G + Qsum (map (pweight hw) ps))%Q.
Proof. exact conserves_lemma. Qed.
Print Assumptions conserves.

(* ★ nonneg: no cell decreases when the weights are >= 0 ... *)
Theorem nonneg : forall k box off hw ps G,
  wf3 G -> 0 < d0 G -> 0 < d1 G -> 0 < d2 G -> (0 < box)%Q -> Forall (adm k box off (d0 G) (d1 G) (d2 G)) ps ->
  Forall (fun p => 0 <= pweight hw p)%Q ps ->
  exists G', scatter k box off hw ps G = Ok G' /\
    forall a b c, in_grid G a b c -> (cell G a b c <= cell G' a b c)%Q.
Proof. exact nonneg_lemma. Qed.
Print Assumptions nonneg.

(* ... because every single one of the 27 increments of the generated tables is >= 0 *)
Theorem tsc_increments_nonneg : forall box off hw p G,
  0 < d0 G -> 0 < d1 G -> 0 < d2 G -> (0 < box)%Q -> adm TSC box off (d0 G) (d1 G) (d2 G) p ->
  (0 <= pweight hw p)%Q ->
  Forall (fun r => 0 <= wprod (tsc_axes box off G p) (pweight hw p) (r_w r))%Q (tsc_table_2d ++ tsc_table_3d).
Proof. exact tsc_increments_nonneg_lemma. Qed.
Print Assumptions tsc_increments_nonneg.

Theorem cic_increments_nonneg : forall box hw p G,
  0 < d0 G -> 0 < d1 G -> 0 < d2 G -> (0 < box)%Q -> adm CIC box 0 (d0 G) (d1 G) (d2 G) p ->
  (0 <= pweight hw p)%Q ->
  Forall (fun r => 0 <= wprod (cic_axes box G p) (pweight hw p) (r_w r))%Q
    (cic_table_2d ++ (if cic_threeD 3 (d2 G) then cic_table_3d else [])).
Proof. exact cic_increments_nonneg_lemma. Qed.
Print Assumptions cic_increments_nonneg.

(* ★ additive_accumulates, three parts.  (i) depositing a concatenation = depositing the parts one after the other into the
   same grid (no hypothesis at all: also the error cases agree) *)
Theorem additive : forall k box off hw ps1 ps2 G,
  scatter k box off hw (ps1 ++ ps2) G = bind (scatter k box off hw ps1 G) (scatter k box off hw ps2).
Proof. exact scatter_app. Qed.
Print Assumptions additive.

(* (ii) the order of the particles does not matter *)
Theorem permutation_invariant : forall k box off hw ps ps' G,
  wf3 G -> 0 < d0 G -> 0 < d1 G -> 0 < d2 G -> (0 < box)%Q -> Forall (adm k box off (d0 G) (d1 G) (d2 G)) ps ->
  Permutation ps ps' ->
  exists G1 G2, scatter k box off hw ps G = Ok G1 /\ scatter k box off hw ps' G = Ok G2 /\
    dims3 G1 = dims3 G2 /\ forall a b c, in_grid G a b c -> (cell G1 a b c == cell G2 a b c)%Q.
Proof. exact permutation_lemma. Qed.
Print Assumptions permutation_invariant.

(* (iii) the deposit is added to whatever the supplied grid holds *)
Theorem accumulates : forall k box off hw ps G,
  wf3 G -> 0 < d0 G -> 0 < d1 G -> 0 < d2 G -> (0 < box)%Q -> Forall (adm k box off (d0 G) (d1 G) (d2 G)) ps ->
  exists G' Z', scatter k box off hw ps G = Ok G' /\
    scatter k box off hw ps (zeros3 0%Q (d0 G) (d1 G) (d2 G)) = Ok Z' /\
    forall a b c, in_grid G a b c -> (cell G' a b c == cell G a b c + cell Z' a b c)%Q.
Proof. exact accumulates_lemma. Qed.
Print Assumptions accumulates.

(* ★ cell_shift_rolls: moving every particle by (tx,ty,tz) whole cells, each coordinate possibly wrapped by any number
   of boxes, rolls the result by (tx,ty,tz) cells (when the supplied grids are rolled copies too, e.g. both zero) *)
Theorem cell_shift_rolls : forall k box off hw t ps ps' G Gs,
  wf3 G -> wf3 Gs -> dims3 Gs = dims3 G -> 0 < d0 G -> 0 < d1 G -> 0 < d2 G -> (0 < box)%Q ->
  Forall (adm k box off (d0 G) (d1 G) (d2 G)) ps -> Forall (adm k box off (d0 G) (d1 G) (d2 G)) ps' ->
  Forall2 (shifted box (d0 G) (d1 G) (d2 G) t) ps ps' ->
  (forall a b c, in_grid G a b c ->
     (cell Gs ((a + fst (fst t)) mod d0 G) ((b + snd (fst t)) mod d1 G) ((c + snd t) mod d2 G) == cell G a b c)%Q) ->
  exists R R', scatter k box off hw ps G = Ok R /\ scatter k box off hw ps' Gs = Ok R' /\
    forall a b c, in_grid G a b c ->
      (cell R' ((a + fst (fst t)) mod d0 G) ((b + snd (fst t)) mod d1 G) ((c + snd t) mod d2 G) == cell R a b c)%Q.
Proof. exact cell_shift_rolls_lemma. Qed.
Print Assumptions cell_shift_rolls.

(* boundary_value_box: a coordinate equal to box (admissible by the domain theorems) deposits like the coordinate 0 *)
Theorem boundary_value_box : forall k box off g a, 0 < g -> (0 < box)%Q -> 0 <= a < g ->
  (Kper (Kof k) g a (grid_coord box off box g) == Kper (Kof k) g a (grid_coord 0 off box g))%Q.
Proof. exact boundary_value_box_lemma. Qed.
Print Assumptions boundary_value_box.

(* wrap_inplace_range: the generated coordinate wrap maps [-box, 2 box) into [0, box) by a whole number of boxes
   (in floating point the upper end can round to box itself; that value is covered by the domain theorems) *)
Theorem wrap_inplace_range : forall x box, (0 < box)%Q -> (- box <= x)%Q -> (x < 2 * box)%Q ->
  (0 <= tsc_wrap1 x box)%Q /\ (tsc_wrap1 x box < box)%Q /\
  exists m, -1 <= m <= 1 /\ (tsc_wrap1 x box == x + inject_Z m * box)%Q.
Proof. exact wrap_inplace_range_lemma. Qed.
Print Assumptions wrap_inplace_range.

(* tsc_parallel with wrap on: positions up to one box outside [0, box) are all in bounds and obey the kernel form written
   with their UNWRAPPED coordinates (the periodic image) *)
Theorem wrapped_deposit : forall box off hw ps G,
  wf3 G -> 3 <= d0 G -> 3 <= d1 G -> 3 <= d2 G -> (0 < box)%Q -> (0 <= off)%Q ->
  (off * inject_Z (d0 G) < box)%Q -> (off * inject_Z (d1 G) < box)%Q -> (off * inject_Z (d2 G) < box)%Q ->
  Forall (in_wrap_range box) ps ->
  many_spec K_tsc G (tsc_parallel_model box off hw true ps G) (map (gc3 box off hw (d0 G) (d1 G) (d2 G)) ps).
Proof. exact wrapped_deposit_lemma. Qed.
Print Assumptions wrapped_deposit.

(* a one-cell axis collects the whole weight (why CIC's 2-D mode is the g = 1 instance of the same formula) *)
Theorem one_cell_axis : forall k p, (Kper (Kof k) 1 0 p == 1)%Q.
Proof. exact one_cell_axis_lemma. Qed.
Print Assumptions one_cell_axis.
