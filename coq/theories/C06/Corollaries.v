(* C06/Corollaries.v — the lemmas that Properties.v states as theorems. *)
From Coq Require Import ZArith QArith Qround Qabs List Bool Lia Lqa Morphisms Permutation.
From Abacus.Common Require Import Arr Num.
From Abacus.C06 Require Import Tab Arr3 Gen Kernel1D Model Spec Arr3Facts KernelFacts Kernel1DFacts Proofs.
Import ListNotations.
Local Open Scope Z_scope.

Definition pweight (hw : bool) (p : particle) : Q := Wof hw (snd p).

Lemma gc3_snd box off hw n0 n1 n2 p : snd (gc3 box off hw n0 n1 n2 p) = pweight hw p.
Proof. destruct p as [[[x y] z] w]. reflexivity. Qed.

Lemma map_snd_gc3 box off hw n0 n1 n2 ps :
  map snd (map (gc3 box off hw n0 n1 n2) ps) = map (pweight hw) ps.
Proof. rewrite map_map. apply map_ext. intros p. apply gc3_snd. Qed.

(* ---- memory safety: the Ok part *)
Lemma indices_in_bounds_lemma k box off hw ps G :
  wf3 G -> 0 < d0 G -> 0 < d1 G -> 0 < d2 G -> (0 < box)%Q -> Forall (adm k box off (d0 G) (d1 G) (d2 G)) ps ->
  exists G', scatter k box off hw ps G = Ok G' /\ wf3 G' /\ dims3 G' = dims3 G.
Proof.
  intros Hwf G0 G1 G2 Hb Hadm.
  destruct (scatter_spec k box off hw ps G Hwf G0 G1 G2 Hb Hadm) as (G' & U & Hwf' & Hd & _).
  exists G'. auto.
Qed.

(* ---- the documented domain is admissible *)
Lemma near_ok box off g x : 3 <= g -> (0 < box)%Q -> (0 <= off)%Q -> (off * inject_Z g < box)%Q ->
  (0 <= x)%Q -> (x <= box)%Q -> i_ok g (near box off g x).
Proof.
  intros Hg Hb Ho Hh H0 H1. unfold near.
  destruct (grid_coord_range x off box g) as [A B]; try assumption; try lia.
  apply i_ok_of_range; assumption.
Qed.

Lemma near_ok0 box g x : 2 <= g -> (0 < box)%Q -> (0 <= x)%Q -> (x <= box)%Q -> i_ok g (near box 0 g x).
Proof.
  intros Hg Hb H0 H1. unfold near.
  destruct (grid_coord_range0 x box g) as [A B]; try assumption; try lia.
  apply i_ok_of_range0; assumption.
Qed.

Lemma domain_adm_tsc_lemma box off n0 n1 n2 x y z w :
  (0 < box)%Q -> (0 <= off)%Q -> 3 <= n0 -> 3 <= n1 -> 3 <= n2 ->
  (off * inject_Z n0 < box)%Q -> (off * inject_Z n1 < box)%Q -> (off * inject_Z n2 < box)%Q ->
  (0 <= x)%Q /\ (x <= box)%Q -> (0 <= y)%Q /\ (y <= box)%Q -> (0 <= z)%Q /\ (z <= box)%Q ->
  adm TSC box off n0 n1 n2 (x, y, z, w).
Proof.
  intros Hb Ho N0 N1 N2 H0 H1 H2 [X0 X1] [Y0 Y1] [Z0 Z1]. cbn [adm adm_tsc].
  repeat split; apply near_ok; assumption.
Qed.

Lemma near_ok_signed box off g x : 3 <= g -> (0 < box)%Q -> (- box < off * inject_Z g)%Q -> (off * inject_Z g < box)%Q ->
  (0 <= x)%Q -> (x <= box)%Q -> i_ok g (near box off g x).
Proof.
  intros Hg Hb Ho Hh H0 H1. unfold near.
  destruct (grid_coord_range_signed x off box g) as [A B]; try assumption; try lia.
  apply i_ok_of_range_signed; assumption.
Qed.

Lemma domain_adm_tsc_signed_lemma box off n0 n1 n2 x y z w :
  (0 < box)%Q -> 3 <= n0 -> 3 <= n1 -> 3 <= n2 ->
  (- box < off * inject_Z n0)%Q /\ (off * inject_Z n0 < box)%Q ->
  (- box < off * inject_Z n1)%Q /\ (off * inject_Z n1 < box)%Q ->
  (- box < off * inject_Z n2)%Q /\ (off * inject_Z n2 < box)%Q ->
  (0 <= x)%Q /\ (x <= box)%Q -> (0 <= y)%Q /\ (y <= box)%Q -> (0 <= z)%Q /\ (z <= box)%Q ->
  adm TSC box off n0 n1 n2 (x, y, z, w).
Proof.
  intros Hb N0 N1 N2 [A0 B0] [A1 B1] [A2 B2] [X0 X1] [Y0 Y1] [Z0 Z1]. cbn [adm adm_tsc].
  repeat split; apply near_ok_signed; assumption.
Qed.

Lemma domain_adm_tsc_no_offset_lemma box n0 n1 n2 x y z w :
  (0 < box)%Q -> 2 <= n0 -> 2 <= n1 -> 2 <= n2 ->
  (0 <= x)%Q /\ (x <= box)%Q -> (0 <= y)%Q /\ (y <= box)%Q -> (0 <= z)%Q /\ (z <= box)%Q ->
  adm TSC box 0 n0 n1 n2 (x, y, z, w).
Proof.
  intros Hb N0 N1 N2 [X0 X1] [Y0 Y1] [Z0 Z1]. cbn [adm adm_tsc].
  repeat split; apply near_ok0; assumption.
Qed.

Lemma domain_adm_cic_lemma box off n0 n1 n2 x y z w :
  (0 < box)%Q -> 2 <= n0 -> 2 <= n1 -> n2 = 1 \/ 2 <= n2 ->
  (0 <= x)%Q /\ (x <= box)%Q -> (0 <= y)%Q /\ (y <= box)%Q -> (0 <= z)%Q /\ (z <= box)%Q ->
  adm CIC box off n0 n1 n2 (x, y, z, w).
Proof.
  intros Hb N0 N1 N2 [X0 X1] [Y0 Y1] [Z0 Z1]. cbn [adm adm_cic].
  split; [apply near_ok0; assumption|]. split; [apply near_ok0; assumption|].
  destruct N2 as [N2|N2]; [left; exact N2|right; apply near_ok0; assumption].
Qed.

(* ---- conservation *)
Lemma conserves_lemma k box off hw ps G :
  wf3 G -> 0 < d0 G -> 0 < d1 G -> 0 < d2 G -> (0 < box)%Q -> Forall (adm k box off (d0 G) (d1 G) (d2 G)) ps ->
  exists G', scatter k box off hw ps G = Ok G' /\ (total G' == total G + Qsum (map (pweight hw) ps))%Q.
Proof.
  intros Hwf G0 G1 G2 Hb Hadm.
  destruct (scatter_spec k box off hw ps G Hwf G0 G1 G2 Hb Hadm) as (G' & U & _ & _ & _ & Ht).
  exists G'. split; [exact U|]. rewrite Ht, map_snd_gc3. reflexivity.
Qed.

(* ---- non-negativity *)
Lemma nonneg_lemma k box off hw ps G :
  wf3 G -> 0 < d0 G -> 0 < d1 G -> 0 < d2 G -> (0 < box)%Q -> Forall (adm k box off (d0 G) (d1 G) (d2 G)) ps ->
  Forall (fun p => 0 <= pweight hw p)%Q ps ->
  exists G', scatter k box off hw ps G = Ok G' /\
    forall a b c, in_grid G a b c -> (cell G a b c <= cell G' a b c)%Q.
Proof.
  intros Hwf G0 G1 G2 Hb Hadm Hw.
  destruct (scatter_spec k box off hw ps G Hwf G0 G1 G2 Hb Hadm) as (G' & U & _ & _ & Hc & _).
  exists G'. split; [exact U|]. intros a b c Hin. rewrite (Hc a b c Hin).
  assert (0 <= Qsum (map (contrib (Kof k) (d0 G) (d1 G) (d2 G) a b c)
                       (map (gc3 box (offof k off) hw (d0 G) (d1 G) (d2 G)) ps)))%Q; [|lra].
  apply Qsum_nonneg. rewrite map_map. apply Forall_map. 
  eapply Forall_impl; [|exact Hw]. intros p Hp. cbv beta.
  apply contrib_nonneg; [apply Kof_kernel|]. rewrite gc3_snd. exact Hp.
Qed.

Definition tsc_axes (box off : Q) (G : arr3 Q) (p : particle) : axes :=
  let '(x, y, z, _) := p in
  (tsc_axis_x x off box (d0 G), tsc_axis_y y off box (d1 G), tsc_axis_z z off box (d2 G)).

Definition cic_axes (box : Q) (G : arr3 Q) (p : particle) : axes :=
  let '(x, y, z, _) := p in
  (cic_axis_x x box (d0 G), cic_axis_y y box (d1 G),
   if cic_threeD 3 (d2 G) then cic_axis_z z box (d2 G) else axis_2d cic_izw_2d cic_wz_2d).

Lemma tsc_increments_nonneg_lemma box off hw p G :
  0 < d0 G -> 0 < d1 G -> 0 < d2 G -> (0 < box)%Q -> adm TSC box off (d0 G) (d1 G) (d2 G) p ->
  (0 <= pweight hw p)%Q ->
  Forall (fun r => 0 <= wprod (tsc_axes box off G p) (pweight hw p) (r_w r))%Q (tsc_table_2d ++ tsc_table_3d).
Proof.
  destruct p as [[[x y] z] w]. intros G0 G1 G2 Hb (Ax & Ay & Az) Hw. unfold near in *. cbn [tsc_axes].
  assert (HX : axis_ok K_tsc (d0 G) (tsc_axis_x x off box (d0 G))).
  { apply tsc_axis_x_ok; [exact G0|]. unfold tsc_ix. rewrite (round_half_even_comp _ _ (tsc_px_spec x off (d0 G) box Hb)). exact Ax. }
  assert (HY : axis_ok K_tsc (d1 G) (tsc_axis_y y off box (d1 G))).
  { apply tsc_axis_y_ok; [exact G1|]. unfold tsc_iy. rewrite (round_half_even_comp _ _ (tsc_py_spec y off (d1 G) box Hb)). exact Ay. }
  assert (HZ : axis_ok K_tsc (d2 G) (tsc_axis_z z off box (d2 G))).
  { apply tsc_axis_z_ok; [exact G2|]. unfold tsc_iz. rewrite (round_half_even_comp _ _ (tsc_pz_spec z off (d2 G) box Hb)). exact Az. }
  rewrite tsc_table_2d_canon, tsc_table_3d_canon.
  apply canon3_nonneg; [exact Hw| | |]; eapply axis_ok_nonneg; try eassumption; exact K_tsc_kernel.
Qed.

Lemma cic_increments_nonneg_lemma box hw p G :
  0 < d0 G -> 0 < d1 G -> 0 < d2 G -> (0 < box)%Q -> adm CIC box 0 (d0 G) (d1 G) (d2 G) p ->
  (0 <= pweight hw p)%Q ->
  Forall (fun r => 0 <= wprod (cic_axes box G p) (pweight hw p) (r_w r))%Q
    (cic_table_2d ++ (if cic_threeD 3 (d2 G) then cic_table_3d else [])).
Proof.
  destruct p as [[[x y] z] w]. intros G0 G1 G2 Hb (Ax & Ay & Az) Hw. unfold near in *. cbn [cic_axes].
  assert (HX : axis_ok K_cic (d0 G) (cic_axis_x x box (d0 G))).
  { apply cic_axis_x_ok; [exact G0|]. unfold cic_ix. rewrite (round_half_even_comp _ _ (cic_px_spec x (d0 G) box Hb)). exact Ax. }
  assert (HY : axis_ok K_cic (d1 G) (cic_axis_y y box (d1 G))).
  { apply cic_axis_y_ok; [exact G1|]. unfold cic_iy. rewrite (round_half_even_comp _ _ (cic_py_spec y (d1 G) box Hb)). exact Ay. }
  pose proof (axis_ok_nonneg K_cic _ _ K_cic_kernel HX) as NX.
  pose proof (axis_ok_nonneg K_cic _ _ K_cic_kernel HY) as NY.
  rewrite cic_table_2d_canon, cic_table_3d_canon. unfold cic_threeD.
  destruct (Z.eq_dec (d2 G) 1) as [E1|E1].
  - rewrite E1. cbn [Z.eqb Pos.eqb negb]. rewrite app_nil_r.
    assert (F : Forall (fun r => 0 <= wprod (cic_axis_x x box (d0 G), cic_axis_y y box (d1 G), axis_2d cic_izw_2d cic_wz_2d)
                                      (pweight hw (x, y, z, w)) (r_w r))%Q (canon_2d ++ canon_3d)).
    { apply canon3_nonneg; [exact Hw|exact NX|exact NY|]. cbn. repeat split; discriminate. }
    apply Forall_app in F. exact (proj1 F).
  - destruct Az as [Az|Az]; [contradiction|]. replace (d2 G =? 1) with false by lia. cbn [negb].
    assert (HZ : axis_ok K_cic (d2 G) (cic_axis_z z box (d2 G))).
    { apply cic_axis_z_ok; [exact G2|]. unfold cic_iz. rewrite (round_half_even_comp _ _ (cic_pz_spec z (d2 G) box Hb)). exact Az. }
    apply canon3_nonneg; [exact Hw|exact NX|exact NY|]. apply (axis_ok_nonneg K_cic _ _ K_cic_kernel HZ).
Qed.

(* ---- additivity, accumulation, permutation invariance *)
Lemma permutation_lemma k box off hw ps ps' G :
  wf3 G -> 0 < d0 G -> 0 < d1 G -> 0 < d2 G -> (0 < box)%Q -> Forall (adm k box off (d0 G) (d1 G) (d2 G)) ps ->
  Permutation ps ps' ->
  exists G1 G2, scatter k box off hw ps G = Ok G1 /\ scatter k box off hw ps' G = Ok G2 /\
    dims3 G1 = dims3 G2 /\ forall a b c, in_grid G a b c -> (cell G1 a b c == cell G2 a b c)%Q.
Proof.
  intros Hwf G0 G1 G2 Hb Hadm Hperm.
  assert (Hadm' : Forall (adm k box off (d0 G) (d1 G) (d2 G)) ps') by (eapply Permutation_Forall; eassumption).
  destruct (scatter_spec k box off hw ps G Hwf G0 G1 G2 Hb Hadm) as (R1 & U1 & _ & Hd1 & Hc1 & _).
  destruct (scatter_spec k box off hw ps' G Hwf G0 G1 G2 Hb Hadm') as (R2 & U2 & _ & Hd2 & Hc2 & _).
  exists R1, R2. split; [exact U1|]. split; [exact U2|]. split; [congruence|].
  intros a b c Hin. rewrite (Hc1 a b c Hin), (Hc2 a b c Hin).
  apply Qplus_comp; [reflexivity|]. apply Qsum_perm. apply Permutation_map. apply Permutation_map. exact Hperm.
Qed.

Lemma accumulates_lemma k box off hw ps G :
  wf3 G -> 0 < d0 G -> 0 < d1 G -> 0 < d2 G -> (0 < box)%Q -> Forall (adm k box off (d0 G) (d1 G) (d2 G)) ps ->
  exists G' Z', scatter k box off hw ps G = Ok G' /\
    scatter k box off hw ps (zeros3 0%Q (d0 G) (d1 G) (d2 G)) = Ok Z' /\
    forall a b c, in_grid G a b c -> (cell G' a b c == cell G a b c + cell Z' a b c)%Q.
Proof.
  intros Hwf G0 G1 G2 Hb Hadm.
  destruct (scatter_spec k box off hw ps G Hwf G0 G1 G2 Hb Hadm) as (R1 & U1 & _ & _ & Hc1 & _).
  set (Z0 := zeros3 0%Q (d0 G) (d1 G) (d2 G)).
  assert (HwfZ : wf3 Z0) by (apply zeros3_wf; lia).
  destruct (scatter_spec k box off hw ps Z0 HwfZ G0 G1 G2 Hb Hadm) as (R2 & U2 & _ & _ & Hc2 & _).
  exists R1, R2. split; [exact U1|]. split; [exact U2|]. intros a b c Hin.
  rewrite (Hc1 a b c Hin). rewrite (Hc2 a b c Hin). unfold Z0 at 1. rewrite zeros3_cell.
  cbn [zeros3 d0 d1 d2 Z0]. ring.
Qed.

(* ---- whole-cell shifts roll the grid *)
Lemma cell_shift_rolls_lemma k box off hw t ps ps' G Gs :
  wf3 G -> wf3 Gs -> dims3 Gs = dims3 G -> 0 < d0 G -> 0 < d1 G -> 0 < d2 G -> (0 < box)%Q ->
  Forall (adm k box off (d0 G) (d1 G) (d2 G)) ps -> Forall (adm k box off (d0 G) (d1 G) (d2 G)) ps' ->
  Forall2 (shifted box (d0 G) (d1 G) (d2 G) t) ps ps' ->
  (forall a b c, in_grid G a b c ->
     (cell Gs ((a + fst (fst t)) mod d0 G) ((b + snd (fst t)) mod d1 G) ((c + snd t) mod d2 G) == cell G a b c)%Q) ->
  exists R R', scatter k box off hw ps G = Ok R /\ scatter k box off hw ps' Gs = Ok R' /\
    forall a b c, in_grid G a b c ->
      (cell R' ((a + fst (fst t)) mod d0 G) ((b + snd (fst t)) mod d1 G) ((c + snd t) mod d2 G) == cell R a b c)%Q.
Proof.
  intros Hwf Hwfs Hds G0 G1 G2 Hb Hadm Hadm' Hsh Hroll.
  destruct (dims3_eq _ _ Hds) as (D0 & D1 & D2).
  destruct (scatter_spec k box off hw ps G Hwf G0 G1 G2 Hb Hadm) as (R & U & _ & _ & Hc & _).
  destruct (scatter_spec k box off hw ps' Gs Hwfs) as (R' & U' & _ & _ & Hc' & _); try (rewrite ?D0, ?D1, ?D2; assumption).
  exists R, R'. split; [exact U|]. split; [exact U'|]. intros a b c Hin.
  assert (Hin' : in_grid Gs ((a + fst (fst t)) mod d0 G) ((b + snd (fst t)) mod d1 G) ((c + snd t) mod d2 G)).
  { unfold in_grid. rewrite D0, D1, D2. repeat split; apply Z.mod_pos_bound; assumption. }
  rewrite (Hc' _ _ _ Hin'), (Hc a b c Hin), (Hroll a b c Hin). rewrite D0, D1, D2.
  apply Qplus_comp; [reflexivity|]. rewrite !map_map. symmetry.
  apply (Qsum_map_ext _ _ (shifted box (d0 G) (d1 G) (d2 G) t) ps ps' Hsh).
  intros p p' Hpp. symmetry. destruct Hin as (Ia & Ib & Ic).
  apply contrib_shifted; try assumption. apply (k_proper _ (Kof_kernel k)).
Qed.

(* ---- pos = box is allowed and deposits like pos = 0 *)
Lemma boundary_value_box_lemma k box off g a : 0 < g -> (0 < box)%Q -> 0 <= a < g ->
  (Kper (Kof k) g a (grid_coord box off box g) == Kper (Kof k) g a (grid_coord 0 off box g))%Q.
Proof.
  intros Hg Hb Ha.
  assert (E : (grid_coord box off box g == grid_coord 0 off box g + inject_Z (1 * g))%Q).
  { unfold grid_coord. rewrite Z.mul_1_l. field. lra. }
  rewrite (Kper_proper _ g a _ _ (k_proper _ (Kof_kernel k)) E).
  apply Kper_period; [apply (k_proper _ (Kof_kernel k))|exact Hg|exact Ha].
Qed.

(* ---- the in-place wrap *)
Lemma wrap_inplace_range_lemma x box : (0 < box)%Q -> (- box <= x)%Q -> (x < 2 * box)%Q ->
  (0 <= tsc_wrap1 x box)%Q /\ (tsc_wrap1 x box < box)%Q /\
  exists m, -1 <= m <= 1 /\ (tsc_wrap1 x box == x + inject_Z m * box)%Q.
Proof.
  intros Hb H0 H1. unfold tsc_wrap1. change (inject_Z 0) with 0%Q. qbools.
  - split; [lra|]. split; [lra|]. exists (-1). split; [lia|]. change (inject_Z (-1)) with (-1 # 1)%Q. ring.
  - split; [lra|]. split; [lra|]. exists 1. split; [lia|]. change (inject_Z 1) with 1%Q. ring.
  - split; [lra|]. split; [lra|]. exists 0. split; [lia|]. change (inject_Z 0) with 0%Q. ring.
Qed.

Lemma wrap_shifted box g x : 0 < g -> (0 < box)%Q -> (- box <= x)%Q -> (x < 2 * box)%Q ->
  shifted1 box g 0 x (tsc_wrap1 x box).
Proof.
  intros Hg Hb H0 H1. destruct (wrap_inplace_range_lemma x box Hb H0 H1) as (_ & _ & m & _ & E).
  exists m. rewrite E. rewrite Z.add_0_l, inject_Z_mult.
  assert (HG : (0 < inject_Z g)%Q) by (change 0%Q with (inject_Z 0); rewrite <- Zlt_Qlt; exact Hg).
  field. lra.
Qed.

Definition in_wrap_range (box : Q) (p : particle) : Prop :=
  let '(x, y, z, _) := p in
  ((- box <= x)%Q /\ (x < 2 * box)%Q) /\ ((- box <= y)%Q /\ (y < 2 * box)%Q) /\ ((- box <= z)%Q /\ (z < 2 * box)%Q).

(* tsc_parallel with wrap on: positions up to one box outside are deposited at their periodic image, i.e. the kernel
   form holds with the UNWRAPPED grid coordinates *)
Lemma wrapped_deposit_lemma box off hw ps G :
  wf3 G -> 3 <= d0 G -> 3 <= d1 G -> 3 <= d2 G -> (0 < box)%Q -> (0 <= off)%Q ->
  (off * inject_Z (d0 G) < box)%Q -> (off * inject_Z (d1 G) < box)%Q -> (off * inject_Z (d2 G) < box)%Q ->
  Forall (in_wrap_range box) ps ->
  many_spec K_tsc G (tsc_parallel_model box off hw true ps G) (map (gc3 box off hw (d0 G) (d1 G) (d2 G)) ps).
Proof.
  intros Hwf N0 N1 N2 Hb Ho H0 H1 H2 Hr. unfold tsc_parallel_model.
  assert (Hadm : Forall (adm TSC box off (d0 G) (d1 G) (d2 G)) (map (wrap_particle box) ps)).
  { apply Forall_map. eapply Forall_impl; [|exact Hr]. intros [[[x y] z] w] ((X0 & X1) & (Y0 & Y1) & (Z0 & Z1)).
    cbn [wrap_particle].
    destruct (wrap_inplace_range_lemma x box Hb X0 X1) as (? & ? & _).
    destruct (wrap_inplace_range_lemma y box Hb Y0 Y1) as (? & ? & _).
    destruct (wrap_inplace_range_lemma z box Hb Z0 Z1) as (? & ? & _).
    apply domain_adm_tsc_lemma; try assumption; split; lra. }
  destruct (scatter_spec TSC box off hw (map (wrap_particle box) ps) G Hwf ltac:(lia) ltac:(lia) ltac:(lia) Hb Hadm)
    as (G' & U & Hwf' & Hd & Hc & Ht).
  exists G'. split; [exact U|]. split; [exact Hwf'|]. split; [exact Hd|]. cbn [Kof offof] in *. split.
  - intros a b c Hin. rewrite (Hc a b c Hin). apply Qplus_comp; [reflexivity|]. rewrite !map_map.
    apply (Qsum_map_ext _ _ (fun p p' => p' = p /\ in_wrap_range box p) ps ps).
    + clear - Hr. induction Hr; constructor; auto.
    + intros p p' [-> Hp]. destruct Hin as (Ia & Ib & Ic).
      pose proof (contrib_shifted K_tsc box off hw (d0 G) (d1 G) (d2 G) (0, 0, 0) p (wrap_particle box p) a b c
                    K_tsc_proper) as E.
      cbn [fst snd] in E. rewrite !Z.add_0_r, !Z.mod_small in E by lia.
      apply E; try lia; try assumption.
      destruct p as [[[x y] z] w]. destruct Hp as ((X0 & X1) & (Y0 & Y1) & (Z0 & Z1)). cbn [wrap_particle shifted].
      split; [reflexivity|]. repeat split; apply wrap_shifted; try lia; assumption.
  - rewrite Ht. rewrite !map_snd_gc3. rewrite map_map.
    assert (E : map (fun x => pweight hw (wrap_particle box x)) ps = map (pweight hw) ps).
    { apply map_ext. intros [[[x y] z] w]. reflexivity. }
    rewrite E. reflexivity.
Qed.

(* ---- the .5 tie: whichever nearest cell is chosen, the three deposits add up to the same periodised kernel *)
Lemma tie_irrelevant_lemma K g a p i i' : kernel_like K ->
  (inject_Z i - p <= 1 # 2)%Q -> (p - inject_Z i <= 1 # 2)%Q ->
  (inject_Z i' - p <= 1 # 2)%Q -> (p - inject_Z i' <= 1 # 2)%Q ->
  (delta (Some ((i - 1) mod g)) a * K (inject_Z (i - 1) - p) + delta (Some (i mod g)) a * K (inject_Z i - p)
   + delta (Some ((i + 1) mod g)) a * K (inject_Z (i + 1) - p)
   == delta (Some ((i' - 1) mod g)) a * K (inject_Z (i' - 1) - p) + delta (Some (i' mod g)) a * K (inject_Z i' - p)
      + delta (Some ((i' + 1) mod g)) a * K (inject_Z (i' + 1) - p))%Q.
Proof.
  intros HK A1 A2 B1 B2. rewrite <- (three_point K g a p i HK A1 A2). rewrite <- (three_point K g a p i' HK B1 B2).
  reflexivity.
Qed.

(* ---- the periodised kernel is a partition of unity over the cells of an axis ... stated for one cell: g = 1 *)
Lemma one_cell_axis_lemma k p : (Kper (Kof k) 1 0 p == 1)%Q.
Proof.
  destruct k; cbn [Kof].
  - apply (Kper_g1 K_tsc p K_tsc_kernel). intros i. apply K_tsc_sum1.
  - apply (Kper_g1 K_cic p K_cic_kernel). intros i. apply K_cic_sum1.
Qed.
