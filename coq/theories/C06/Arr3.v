(* C06/Arr3.v — checked-access 3-D arrays (row-major list + dims), numba/NumPy index semantics per axis:
   0 <= i < n direct, -n <= i < 0 wraps once, anything else Oob.  Definitions only (lemmas in Arr3Facts.v). *)
From Coq Require Import ZArith List Bool.
From Abacus.Common Require Import Arr.
Import ListNotations.
Local Open Scope Z_scope.
Local Open Scope res_scope.

Record arr3 (A : Type) := mk3 { d0 : Z; d1 : Z; d2 : Z; dat : list A }.
Arguments mk3 {A} _ _ _ _.
Arguments d0 {A} _.
Arguments d1 {A} _.
Arguments d2 {A} _.
Arguments dat {A} _.

Definition dims3 {A} (a : arr3 A) : Z * Z * Z := (d0 a, d1 a, d2 a).
Definition len3 {A} (a : arr3 A) : Z := d0 a.

(* normalised index along one axis of extent n *)
Definition norm1 (n i : Z) : option Z :=
  if (0 <=? i) && (i <? n) then Some i
  else if (- n <=? i) && (i <? 0) then Some (i + n)
  else None.

Definition flat3 {A} (a : arr3 A) (i j k : Z) : option Z :=
  match norm1 (d0 a) i, norm1 (d1 a) j, norm1 (d2 a) k with
  | Some i', Some j', Some k' => Some ((i' * d1 a + j') * d2 a + k')
  | _, _, _ => None
  end.

Definition get3 {A} (a : arr3 A) (i j k : Z) : res A :=
  match flat3 a i j k with
  | Some n => get (dat a) n
  | None => Oob
  end.

Definition set3 {A} (a : arr3 A) (i j k : Z) (v : A) : res (arr3 A) :=
  match flat3 a i j k with
  | Some n => d <- set (dat a) n v ;; Ok (mk3 (d0 a) (d1 a) (d2 a) d)
  | None => Oob
  end.

(* a[i,j,k] += ... : read-modify-write *)
Definition upd3 {A} (a : arr3 A) (i j k : Z) (f : A -> A) : res (arr3 A) :=
  v <- get3 a i j k ;; set3 a i j k (f v).

Definition wf3 {A} (a : arr3 A) : Prop :=
  0 <= d0 a /\ 0 <= d1 a /\ 0 <= d2 a /\ len (dat a) = d0 a * d1 a * d2 a.

Definition zeros3 {A} (z : A) (n0 n1 n2 : Z) : arr3 A :=
  mk3 n0 n1 n2 (repeat z (Z.to_nat (n0 * n1 * n2))).
