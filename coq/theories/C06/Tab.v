(* C06/Tab.v — vocabulary of the generated deposit tables (no proofs).

   A deposit statement of the gridding kernels is
       density[ixm1, iyw, izp1] += wxm1 * wy * wzp1 * W
   The generator (tools/gen/c06.py) turns it into a [row]: the three index names and the list of factor names in
   source order.  A name is (axis, selector): ixm1 = (AX, M1), iyw = (AY, C0), wzp1 = (AZ, P1), wz = (AZ, C0). *)
From Coq Require Import ZArith QArith List.
Import ListNotations.

Inductive ax := AX | AY | AZ.
Inductive sel := M1 | C0 | P1.

Definition iname := (ax * sel)%type.
Inductive wname := WA (a : ax) (s : sel) | WW.   (* a 1-D weight, or the particle weight W *)

Record row := mkrow { r_i0 : iname; r_i1 : iname; r_i2 : iname; r_w : list wname }.

Definition ax_eqb (a b : ax) : bool :=
  match a, b with AX, AX | AY, AY | AZ, AZ => true | _, _ => false end.
Definition sel_eqb (a b : sel) : bool :=
  match a, b with M1, M1 | C0, C0 | P1, P1 => true | _, _ => false end.

Definition sel_delta (s : sel) : Z := match s with M1 => (-1)%Z | C0 => 0%Z | P1 => 1%Z end.

(* the two mass-assignment schemes *)
Inductive kind := TSC | CIC.
