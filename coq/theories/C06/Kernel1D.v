(* C06/Kernel1D.v — the 1-D index/weight model of one particle along one axis, assembled from the generated
   pieces of Gen.v in the data-flow order of the kernels:  p -> i = round p -> d = i - p -> three weights,
   three wrapped neighbour indices.  No proofs here, and no dependence on the 3-D model (C07 reuses this file). *)
From Coq Require Import ZArith QArith List Bool.
From Abacus.Common Require Import Arr Num.
From Abacus.C06 Require Import Tab Arr3 Gen.
Import ListNotations.
Local Open Scope Z_scope.

Record axis1 := mk_axis1 {
  a_p : Q;      (* grid coordinate *)
  a_i : Z;      (* nearest cell (round half to even) *)
  a_d : Q;      (* i - p *)
  a_im1 : Z; a_iw : Z; a_ip1 : Z;     (* wrapped indices of the cells i-1, i, i+1 as passed to density[...] *)
  a_wm1 : Q; a_w : Q; a_wp1 : Q       (* their 1-D weights *)
}.

Definition tsc_axis_x (pos offset box : Q) (g : Z) : axis1 :=
  let p := tsc_px pos offset g box in let i := tsc_ix p in let d := tsc_dx i p in
  mk_axis1 p i d (tsc_ixm1 i g) (tsc_ixw i g) (tsc_ixp1 i g) (tsc_wxm1 d) (tsc_wx d) (tsc_wxp1 d).
Definition tsc_axis_y (pos offset box : Q) (g : Z) : axis1 :=
  let p := tsc_py pos offset g box in let i := tsc_iy p in let d := tsc_dy i p in
  mk_axis1 p i d (tsc_iym1 i g) (tsc_iyw i g) (tsc_iyp1 i g) (tsc_wym1 d) (tsc_wy d) (tsc_wyp1 d).
Definition tsc_axis_z (pos offset box : Q) (g : Z) : axis1 :=
  let p := tsc_pz pos offset g box in let i := tsc_iz p in let d := tsc_dz i p in
  mk_axis1 p i d (tsc_izm1 i g) (tsc_izw i g) (tsc_izp1 i g) (tsc_wzm1 d) (tsc_wz d) (tsc_wzp1 d).

Definition cic_axis_x (pos box : Q) (g : Z) : axis1 :=
  let p := cic_px pos g box in let i := cic_ix p in let d := cic_dx i p in
  mk_axis1 p i d (cic_ixm1 i g) (cic_ixw i g) (cic_ixp1 i g) (cic_wxm1 d) (cic_wx d) (cic_wxp1 d).
Definition cic_axis_y (pos box : Q) (g : Z) : axis1 :=
  let p := cic_py pos g box in let i := cic_iy p in let d := cic_dy i p in
  mk_axis1 p i d (cic_iym1 i g) (cic_iyw i g) (cic_iyp1 i g) (cic_wym1 d) (cic_wy d) (cic_wyp1 d).
Definition cic_axis_z (pos box : Q) (g : Z) : axis1 :=
  let p := cic_pz pos g box in let i := cic_iz p in let d := cic_dz i p in
  mk_axis1 p i d (cic_izm1 i g) (cic_izw i g) (cic_izp1 i g) (cic_wzm1 d) (cic_wz d) (cic_wzp1 d).

(* the `else` of `if threeD`: only izw and wz exist; the other slots are never referenced by the 2-D table *)
Definition axis_2d (izw : Z) (wz : Q) : axis1 := mk_axis1 0 0 0 izw izw izw 0 wz 0.

Definition a_isel (a : axis1) (s : sel) : Z := match s with M1 => a_im1 a | C0 => a_iw a | P1 => a_ip1 a end.
Definition a_wsel (a : axis1) (s : sel) : Q := match s with M1 => a_wm1 a | C0 => a_w a | P1 => a_wp1 a end.

(* grid rows (cells along one axis) a particle's cloud touches, as the kernel addresses them after numba's
   negative-index wrap; in range exactly when the access is in bounds *)
Definition cell_of (g i : Z) : option Z := norm1 g i.
Definition rows_touched (g : Z) (a : axis1) : list (option Z) :=
  [cell_of g (a_im1 a); cell_of g (a_iw a); cell_of g (a_ip1 a)].
