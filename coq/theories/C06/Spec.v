(* C06/Spec.v — the specification, written independently of the code.

   K_tsc : the centred quadratic B-spline (triangular-shaped cloud), support (-3/2, 3/2).
   K_cic : the centred linear B-spline (cloud in cell), support (-1, 1).
   Kper K g a p : the kernel centred on grid coordinate p, periodised with period g, at cell a of [0, g):
                  the sum of K (c - p) over the integers c = a (mod g).  Only integers within 3/2 of p contribute
                  (K_tsc_support / K_cic_support in Kernel1DFacts.v); [window p] = floor p - 2 .. floor p + 2 contains
                  them all (Kper_any_window: every larger window gives the same sum).
   cell / total : content of a grid cell and grand total of a row-major 3-D array. *)
From Coq Require Import ZArith QArith Qround Qabs List Bool.
From Abacus.Common Require Import Arr Num.
From Abacus.C06 Require Import Tab Arr3.
Import ListNotations.
Local Open Scope Z_scope.

Definition K_tsc (x : Q) : Q :=
  let a := Qabs x in
  if Qle_bool a (1 # 2) then ((3 # 4) - a * a)%Q
  else if Qle_bool a (3 # 2) then ((1 # 2) * ((3 # 2) - a) * ((3 # 2) - a))%Q
  else 0%Q.

Definition K_cic (x : Q) : Q :=
  let a := Qabs x in
  if Qle_bool a 1 then (1 - a)%Q else 0%Q.

Fixpoint Qsum (l : list Q) : Q := match l with [] => 0%Q | x :: t => (x + Qsum t)%Q end.

Definition zrange (lo : Z) (n : nat) : list Z := map (fun k => lo + Z.of_nat k) (seq 0 n).

Definition window (p : Q) : list Z := zrange (Qfloor p - 2) 5.

Definition Kterm (K : Q -> Q) (g a : Z) (p : Q) (c : Z) : Q :=
  if c mod g =? a then K (inject_Z c - p)%Q else 0%Q.

Definition Kper (K : Q -> Q) (g a : Z) (p : Q) : Q := Qsum (map (Kterm K g a p) (window p)).

Definition cell (G : arr3 Q) (a b c : Z) : Q :=
  nth (Z.to_nat ((a * d1 G + b) * d2 G + c)) (dat G) 0%Q.

Definition total (G : arr3 Q) : Q := Qsum (dat G).

Definition in_grid (G : arr3 Q) (a b c : Z) : Prop := 0 <= a < d0 G /\ 0 <= b < d1 G /\ 0 <= c < d2 G.

(* the cell-wise sum of what a list of particles (given by grid coordinates and weight) deposits at cell (a,b,c) *)
Definition contrib (K : Q -> Q) (gx gy gz : Z) (a b c : Z) (pw : Q * Q * Q * Q) : Q :=
  let '(px, py, pz, w) := pw in (w * (Kper K gx a px * Kper K gy b py * Kper K gz c pz))%Q.

(* position in units of cells: the grid coordinate of a particle along an axis of g cells spanning [0, box),
   with the sub-cell offset of interlacing added to the position *)
Definition grid_coord (pos offset box : Q) (g : Z) : Q := ((pos + offset) * inject_Z g / box)%Q.

(* periodic wrap of a coordinate, specification side *)
Definition in_box (box x : Q) : Prop := (0 <= x)%Q /\ (x < box)%Q.

(* ------------------------------------------------------------------ vocabulary of the theorems *)
(* a particle is (x, y, z, weight); the weight is 1 when no weights array is given *)
Definition Wof (hw : bool) (w : Q) : Q := if hw then w else 1%Q.

(* the admissible range of the nearest cell along an axis of extent g: exactly the values for which the three
   neighbour indices i-1, i, i+1 stay in bounds after one right-wrap and numba's negative-index wrap *)
Definition i_ok (g i : Z) : Prop := 1 - g <= i <= 2 * g - 2.

Definition gc3 (box off : Q) (hw : bool) (n0 n1 n2 : Z) (p : Q * Q * Q * Q) : Q * Q * Q * Q :=
  let '(x, y, z, w) := p in
  (grid_coord x off box n0, grid_coord y off box n1, grid_coord z off box n2, Wof hw w).

(* the exact admissibility condition: along every axis the nearest cell lies in [1 - g, 2g - 2] *)
Definition near (box off : Q) (g : Z) (x : Q) : Z := round_half_even (grid_coord x off box g).

Definition adm_tsc (box off : Q) (n0 n1 n2 : Z) (p : Q * Q * Q * Q) : Prop :=
  let '(x, y, z, _) := p in
  i_ok n0 (near box off n0 x) /\ i_ok n1 (near box off n1 y) /\ i_ok n2 (near box off n2 z).

Definition adm_cic (box : Q) (n0 n1 n2 : Z) (p : Q * Q * Q * Q) : Prop :=
  let '(x, y, z, _) := p in
  i_ok n0 (near box 0 n0 x) /\ i_ok n1 (near box 0 n1 y) /\ (n2 = 1 \/ i_ok n2 (near box 0 n2 z)).

Definition one_spec (K : Q -> Q) (G : arr3 Q) (r : res (arr3 Q)) (pw : Q * Q * Q * Q) : Prop :=
  exists G', r = Ok G' /\ wf3 G' /\ dims3 G' = dims3 G /\
    (forall a b c, in_grid G a b c ->
       (cell G' a b c == cell G a b c + contrib K (d0 G) (d1 G) (d2 G) a b c pw)%Q) /\
    (total G' == total G + snd pw)%Q.

Definition many_spec (K : Q -> Q) (G : arr3 Q) (r : res (arr3 Q)) (pws : list (Q * Q * Q * Q)) : Prop :=
  exists G', r = Ok G' /\ wf3 G' /\ dims3 G' = dims3 G /\
    (forall a b c, in_grid G a b c ->
       (cell G' a b c == cell G a b c + Qsum (map (contrib K (d0 G) (d1 G) (d2 G) a b c) pws))%Q) /\
    (total G' == total G + Qsum (map snd pws))%Q.

Definition Kof (k : kind) : Q -> Q := match k with TSC => K_tsc | CIC => K_cic end.
Definition offof (k : kind) (off : Q) : Q := match k with TSC => off | CIC => 0%Q end.
Definition adm (k : kind) (box off : Q) (n0 n1 n2 : Z) (p : Q * Q * Q * Q) : Prop :=
  match k with TSC => adm_tsc box off n0 n1 n2 p | CIC => adm_cic box n0 n1 n2 p end.

Definition shifted1 (box : Q) (g t : Z) (x x' : Q) : Prop :=
  exists m, (x' == x + inject_Z (t + m * g) * (box / inject_Z g))%Q.

Definition shifted (box : Q) (n0 n1 n2 : Z) (t : Z * Z * Z) (p p' : Q * Q * Q * Q) : Prop :=
  let '(x, y, z, w) := p in let '(x', y', z', w') := p' in let '(tx, ty, tz) := t in
  w' = w /\ shifted1 box n0 tx x x' /\ shifted1 box n1 ty y y' /\ shifted1 box n2 tz z z'.

