(* C06/Spec.v — the specification, written independently of the code.

   K_tsc : the centred quadratic B-spline (triangular-shaped cloud), support (-3/2, 3/2).
   K_cic : the centred linear B-spline (cloud in cell), support (-1, 1).
   Kper K g a p : the kernel centred on grid coordinate p, periodised with period g, at cell a of [0, g):
                  the sum of K (c - p) over the integers c = a (mod g).  Only integers within 3/2 of p contribute
                  (K_tsc_support / K_cic_support in Kernel1DFacts.v); [window p] = floor p - 2 .. floor p + 2 contains
                  them all (Kper_any_window: every larger window gives the same sum).
   cell / total : content of a grid cell and grand total of a row-major 3-D array. *)
From Coq Require Import ZArith QArith Qround Qabs List Bool.
From Abacus.Common Require Import Arr Num.
From Abacus.C06 Require Import Arr3.
Import ListNotations.
Local Open Scope Z_scope.

Definition K_tsc (x : Q) : Q :=
  let a := Qabs x in
  if Qle_bool a (1 # 2) then ((3 # 4) - a * a)%Q
  else if Qle_bool a (3 # 2) then ((1 # 2) * ((3 # 2) - a) * ((3 # 2) - a))%Q
  else 0%Q.

Definition K_cic (x : Q) : Q :=
  let a := Qabs x in
  if Qle_bool a 1 then (1 - a)%Q else 0%Q.

Fixpoint Qsum (l : list Q) : Q := match l with [] => 0%Q | x :: t => (x + Qsum t)%Q end.

Definition zrange (lo : Z) (n : nat) : list Z := map (fun k => lo + Z.of_nat k) (seq 0 n).

Definition window (p : Q) : list Z := zrange (Qfloor p - 2) 5.

Definition Kterm (K : Q -> Q) (g a : Z) (p : Q) (c : Z) : Q :=
  if c mod g =? a then K (inject_Z c - p)%Q else 0%Q.

Definition Kper (K : Q -> Q) (g a : Z) (p : Q) : Q := Qsum (map (Kterm K g a p) (window p)).

Definition cell (G : arr3 Q) (a b c : Z) : Q :=
  nth (Z.to_nat ((a * d1 G + b) * d2 G + c)) (dat G) 0%Q.

Definition total (G : arr3 Q) : Q := Qsum (dat G).

Definition in_grid (G : arr3 Q) (a b c : Z) : Prop := 0 <= a < d0 G /\ 0 <= b < d1 G /\ 0 <= c < d2 G.

(* the cell-wise sum of what a list of particles (given by grid coordinates and weight) deposits at cell (a,b,c) *)
Definition contrib (K : Q -> Q) (gx gy gz : Z) (a b c : Z) (pw : Q * Q * Q * Q) : Q :=
  let '(px, py, pz, w) := pw in (w * (Kper K gx a px * Kper K gy b py * Kper K gz c pz))%Q.

(* periodic wrap of a coordinate, specification side *)
Definition in_box (box x : Q) : Prop := (0 <= x)%Q /\ (x < box)%Q.
