(* C06/Run.v — executable glue for the correspondence check (no theorem depends on it). *)
From Coq Require Import ZArith QArith List Bool.
From Abacus.Common Require Import Arr Num Corr.
From Abacus.C06 Require Import Tab Arr3 Gen Kernel1D Model Spec.
Import ListNotations.
Local Open Scope Z_scope.

(* entry: 0 = _tsc_scatter, 1 = cic_serial, 2 = tsc_parallel (wrap flag used)
   ginit = [] stands for a zero grid *)
Definition case := (Z * (Z * Z * Z) * Q * Q * bool * bool * list particle * list Q)%type.

Definition grid_of (dims : Z * Z * Z) (ginit : list Q) : arr3 Q :=
  let '(n0, n1, n2) := dims in
  match ginit with
  | [] => zeros3 0%Q n0 n1 n2
  | _ => mk3 n0 n1 n2 ginit
  end.

Definition run_model (c : case) : res (arr3 Q) :=
  let '(entry, dims, box, offset, have_W, wrap, ps, ginit) := c in
  let G := grid_of dims ginit in
  if entry =? 0 then scatter TSC box offset have_W ps G
  else if entry =? 1 then scatter CIC box offset have_W ps G
  else tsc_parallel_model box offset have_W wrap ps G.

Definition run (c : case) : val := vres (fun G => vlistQ (map Qred (dat G))) (run_model c).

(* the property predicate on the model (used to search for a failing input when a proof breaks):
   no out-of-bounds access, total conserved, no cell decreased when all weights are >= 0 *)
Definition wsum (have_W : bool) (ps : list particle) : Q :=
  fold_left (fun acc p => acc + (if have_W then snd p else 1))%Q ps 0%Q.

Fixpoint all_le (a b : list Q) : bool :=
  match a, b with
  | x :: a', y :: b' => Qle_bool x y && all_le a' b'
  | [], [] => true
  | _, _ => false
  end.

Definition holds (c : case) : bool :=
  let '(entry, dims, box, offset, have_W, wrap, ps, ginit) := c in
  let G := grid_of dims ginit in
  match run_model c with
  | Ok G' =>
      Qeq_bool (total G') (total G + wsum have_W ps)
      && (negb (forallb (fun p => Qle_bool 0 (snd p)) ps) || all_le (dat G) (dat G'))
  | _ => false
  end.
