(* C14/Examples.v — non-vacuity of the hypotheses and regression values. *)
From Coq Require Import ZArith List Lia Strings.Byte.
From Abacus.Common Require Import Arr Corr.
From Abacus.C14 Require Import Spec Model Lib Proofs RoundTrip Run.
Import ListNotations.
Local Open Scope Z_scope.

(* wf holds of the initial state and of states in the middle of a prefix / of a frame *)
Example wf_initial : wf s_init.
Proof. apply wf_init. Qed.
Example wf_mid_prefix : wf (mkSt 0 0 None [x00; x00] []).
Proof. unfold wf; cbn. split; [reflexivity|unfold len; cbn; lia]. Qed.
Example wf_mid_frame : wf (mkSt 5 2 (Some [x01; x02]) [] [x09]).
Proof. unfold wf; cbn. repeat split; unfold len; cbn; lia. Qed.

(* the codec hypotheses of [roundtrip] are satisfiable: the trivial codec, and (on a sample) the stub's identity framing *)
Example codec_hyps_trivial :
  (forall x : list byte, len x <= 1000 -> (fun f => Ok f) ((fun x => x) x) = Ok x) /\
  (forall x : list byte, len x <= 1000 -> len ((fun x => x) x) < 4294967296).
Proof. split; intros x H; [reflexivity|lia]. Qed.
Example codec_ident_sample : D_ident (C_ident (bytes_of [1; 2; 3; 255; 0])) = Ok (bytes_of [1; 2; 3; 255; 0]).
Proof. vm_compute. reflexivity. Qed.

(* the other hypotheses of [roundtrip] on a non-trivial input: 7 items of 3 bytes, blocks of 2 items *)
Example roundtrip_hyps : 0 < 3 <= 7 /\ 7 <= 1000 /\ len (bytes_of (map Z.of_nat (seq 0 21))) mod 3 = 0.
Proof. vm_compute. repeat split; discriminate. Qed.

Definition data21 := bytes_of (map Z.of_nat (seq 0 21)).
Definition blocks21 := match compress C_ident 7 3 data21 with Ok b => b | _ => [] end.
Example compress_21 : map (@length byte) blocks21 = [23; 23; 23; 20]%nat.
Proof. vm_compute. reflexivity. Qed.
(* cut inside the first prefix, inside a frame, empty chunk, 1-byte chunks *)
Example roundtrip_21 :
  let s := concat blocks21 in
  map (fun cuts => visible (decompress D_ident 21 (split_by cuts s)))
      [[89]; [2; 87]; [2; 0; 30; 1; 1; 1; 54]; [23; 23; 23; 20]] =
  repeat (Ok (data21, 21)) 4.
Proof. vm_compute. reflexivity. Qed.
(* hypothesis of chunking_independent / zero_length_frame on concrete chunkings *)
Example chunkings_same_concat : concat (split_by [2; 0; 30; 57] (concat blocks21)) = concat (split_by [89] (concat blocks21)).
Proof. vm_compute. reflexivity. Qed.
Example split_by_concat : concat (split_by [2; 0; 30; 1; 1; 1; 54] (concat blocks21)) = concat blocks21.
Proof. vm_compute. reflexivity. Qed.

(* an output buffer one byte too small: the raw-pointer write would overrun it *)
Example overrun_is_oob : decompress D_ident 20 [concat blocks21] = Oob.
Proof. vm_compute. reflexivity. Qed.
(* truncated stream: silently returns the complete frames (asdf compares the length afterwards) *)
Example truncated_returns_prefix :
  visible (decompress D_ident 21 [firstn 60 (concat blocks21)]) = Ok (firstn 12 data21, 12).
Proof. vm_compute. reflexivity. Qed.
(* a zero-length frame is handed to the codec (which rejects it), in both chunkings *)
Example zero_frame_single : decompress D_ident 21 [be32_encode 0 ++ concat blocks21] = Raise OtherError.
Proof. vm_compute. reflexivity. Qed.
Example zero_frame_split : decompress D_ident 21 [be32_encode 0; concat blocks21] = Raise OtherError.
Proof. vm_compute. reflexivity. Qed.
Example zero_frame_hyp : concat [be32_encode 0; concat blocks21] = be32_encode 0 ++ concat blocks21.
Proof. vm_compute. reflexivity. Qed.
Example small_block_rejected : compress C_ident 2 3 data21 = Raise ValueError.
Proof. vm_compute. reflexivity. Qed.
Example be32_example : be32_encode 258 = [x00; x00; x01; x02] /\ be32_decode [x00; x00; x01; x02] = 258.
Proof. vm_compute. split; reflexivity. Qed.

(* remaining hypotheses: fuel_sufficient, parse_frame, compress_rejects_small_block, output_within_buffer *)
Example fuel_hyp : wf (mkSt 5 2 (Some [x01; x02]) [] [x09]) /\ (length [x03; x04; x05; x00] < 9)%nat.
Proof. split; [apply wf_mid_frame|cbn; lia]. Qed.
Example fuel_example :
  let D := fun f : list byte => Ok f in
  let s := mkSt 5 2 (Some [x01; x02]) [] [x09] in
  feed_fuel D 100 9 s [x03; x04; x05; x00] = feed D 100 s [x03; x04; x05; x00] /\
  option_map (fun s' => (zs_of (s_out s'), zs_of (s_partial s'))) (match feed D 100 s [x03; x04; x05; x00] with Ok s' => Some s' | _ => None end)
  = Some ([9; 1; 2; 3; 4; 5], [0]).
Proof. vm_compute. split; reflexivity. Qed.
Example parse_frame_hyp : len (C_ident data21) < 4294967296.
Proof. vm_compute. reflexivity. Qed.
Example rejects_hyp : 0 <= 2 < 3.
Proof. lia. Qed.
Example within_buffer_hyp : 0 <= 21 /\ exists s, decompress D_ident 21 [concat blocks21] = Ok s.
Proof. split; [lia|]. eexists. vm_compute. reflexivity. Qed.
(* a chunk that ends inside a prefix, then inside a frame: intermediate reader states *)
Example states_example :
  let s := concat blocks21 in
  match feed D_ident 21 s_init (firstn 2 s) with
  | Ok s1 => (s_size s1, zs_of (s_partial s1)) = (0, [0; 0]) /\
             match feed D_ident 21 s1 (firstn 5 (skipn 2 s)) with
             | Ok s2 => (s_size s2, s_pos s2, option_map zs_of (s_buf s2), s_partial s2) = (19, 3, Some [86; 66; 76], [])
             | _ => False
             end
  | _ => False
  end.
Proof. vm_compute. split; reflexivity. Qed.
