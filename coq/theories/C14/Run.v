(* C14/Run.v — executable glue for the correspondence check (no theorem depends on it).

   A case is one compressed stream together with several ways of cutting it into read chunks; the codec is
   supplied concretely: either as a finite table frame -> decoded bytes (computed by the harness with the stub
   codec, so Coq never needs zlib), or as the Coq-native decoder of the stub's identity framing. *)
From Coq Require Import ZArith List Bool Strings.Byte.
From Abacus.Common Require Import Arr Corr.
From Abacus.C14 Require Import Spec Model.
Import ListNotations.
Local Open Scope Z_scope.

Definition bytes_of (l : list Z) : list byte := map byte_of_Z l.
Definition zs_of (l : list byte) : list Z := map bval l.

Fixpoint zlist_eqb (a b : list Z) : bool :=
  match a, b with
  | [], [] => true
  | x :: a', y :: b' => (x =? y) && zlist_eqb a' b'
  | _, _ => false
  end.

(* codec given as a table; a frame that is not listed is a codec error *)
Fixpoint D_table (tbl : list (list Z * option (list Z))) (frame : list byte) : res (list byte) :=
  match tbl with
  | [] => Raise OtherError
  | (f, r) :: t =>
      if zlist_eqb f (zs_of frame)
      then match r with Some d => Ok (bytes_of d) | None => Raise OtherError end
      else D_table t frame
  end.

(* tools/stubs/blosc.py with VERIF_BLOSC_CODEC=identity:  b'VBLS' + '<Q' length + b'I' + raw *)
Definition le_decode (l : list Z) : Z := fold_right (fun b acc => b + 256 * acc) 0 l.
Definition D_ident (frame : list byte) : res (list byte) :=
  let z := zs_of frame in
  if zlist_eqb (firstn 4 z) [86; 66; 76; 83] && (12 <=? len z) && zlist_eqb (firstn 1 (skipn 12 z)) [73]
     && (le_decode (firstn 8 (skipn 4 z)) =? len z - 13)
  then Ok (skipn 13 frame) else Raise OtherError.

Definition codec (sel : Z) (tbl : list (list Z * option (list Z))) : list byte -> res (list byte) :=
  if sel =? 1 then D_ident else D_table tbl.

Fixpoint split_by (cuts : list Z) (s : list byte) : list (list byte) :=
  match cuts with
  | [] => []
  | c :: t => take c s :: split_by t (drop c s)
  end.

Fixpoint checksum_from (i : Z) (l : list byte) (acc : Z) : Z :=
  match l with
  | [] => acc
  | b :: t => checksum_from (i + 1) t ((acc + i * (bval b + 1)) mod 1000003)
  end.

(* the reader's local variables as the harness snapshots them between chunks *)
Definition vstate (s : st) : val :=
  VL [VZ (s_size s); VZ (s_pos s);
      VZ (match s_buf s with None => -1 | Some b => len b end);
      VZ (match s_buf s with None => 0 | Some b => checksum_from 1 b 0 end);
      vlistZ (zs_of (s_partial s)); VZ (len (s_out s))].

Section R.
  Variable D : list byte -> res (list byte).
  Variable cap : Z.

  Fixpoint feed_trace (s : st) (chunks : list (list byte)) (acc : list val) : res (st * list val) :=
    match chunks with
    | [] => Ok (s, rev acc)
    | c :: t => s' <- feed D cap s c ;; feed_trace s' t (vstate s' :: acc)
    end.

  Definition run_chunking (chunks : list (list byte)) : val :=
    vres (fun '(s, tr) => VL [VL tr; vlistZ (zs_of (s_out s)); VZ (returned s)])
         (feed_trace s_init chunks []).

  (* the property on the model: the observable result of this chunking is the whole-stream specification *)
  Definition ast_val (r : res ast) : val :=
    vres (fun a => VL [vlistZ (zs_of (a_out a)); VZ (len (a_out a));
                       match a_p a with Hdr bs => VL [VZ 0; vlistZ (zs_of bs)]
                                   | Body n bs => VL [VZ n; vlistZ (zs_of bs)] end]) r.

  Definition holds_chunking (stream : list byte) (chunks : list (list byte)) : bool :=
    val_eqb (ast_val (match decompress D cap chunks with Ok s => Ok (abs s) | Oob => Oob | Raise e => Raise e end))
            (ast_val (parse D cap stream)).
End R.

Definition case := (Z * list (list Z * option (list Z)) * list Z * Z * list (list Z))%type.

Definition run (c : case) : val :=
  let '(sel, tbl, stream, cap, cutss) := c in
  let s := bytes_of stream in
  VL (map (fun cuts => run_chunking (codec sel tbl) cap (split_by cuts s)) cutss).

Definition holds (c : case) : bool :=
  let '(sel, tbl, stream, cap, cutss) := c in
  let s := bytes_of stream in
  forallb (fun cuts => holds_chunking (codec sel tbl) cap s (split_by cuts s)) cutss.

(* round trip through the model of compress with the identity-framed stub codec (used by Examples and the harness) *)
Definition C_ident (x : list byte) : list byte :=
  bytes_of ([86; 66; 76; 83] ++ map (fun k => (len x / 256 ^ k) mod 256) [0; 1; 2; 3; 4; 5; 6; 7] ++ [73]) ++ x.

Definition run_compress (c : Z * Z * list Z) : val :=
  let '(blocksz, itemsz, data) := c in
  vres (fun blocks => VL (map (fun b => vlistZ (zs_of b)) blocks)) (compress C_ident blocksz itemsz (bytes_of data)).
