(* C14/Proofs.v — the reader refines the per-byte specification automaton. *)
From Coq Require Import ZArith List Bool Lia Strings.Byte ZifyBool.
From Abacus.Common Require Import Arr.
From Abacus.C14 Require Import Spec Model Lib.
Import ListNotations.
Local Open Scope Z_scope.
Ltac Zify.zify_post_hook ::= Z.to_euclidean_division_equations.

Section Refine.
  Variable D : list byte -> res (list byte).
  Variable cap : Z.

  Notation emit := (emit D cap).
  Notation push := (push D cap).
  Notation parse_from := (parse_from D cap).
  Notation parse := (parse D cap).
  Notation feed := (feed D cap).
  Notation feed_fuel := (feed_fuel D cap).
  Notation iter := (iter D cap).
  Notation read_body := (read_body D cap).
  Notation decompress_ptr := (decompress_ptr D cap).
  Notation decompress := (decompress D cap).
  Notation feed_all := (feed_all D cap).

  (* ---------------------------------------------------------------- the specification automaton *)
  Lemma parse_from_app l1 : forall a l2,
    parse_from a (l1 ++ l2) = (a' <- parse_from a l1 ;; parse_from a' l2).
  Proof.
    induction l1 as [|x t IH]; intros a l2; cbn [app Spec.parse_from]; [reflexivity|].
    destruct (push a x) as [a'| |e]; cbn [bind]; [apply IH|reflexivity|reflexivity].
  Qed.

  (* what happens when the 4th prefix byte arrives *)
  Definition hdr_done (bs out : list byte) : res ast :=
    let size := be32_decode bs in
    if size =? 0 then emit [] out else Ok (mkA (Body size []) out).

  Lemma parse_hdr_partial xs : forall bs out,
    len bs + len xs < 4 ->
    parse_from (mkA (Hdr bs) out) xs = Ok (mkA (Hdr (bs ++ xs)) out).
  Proof.
    induction xs as [|x t IH]; intros bs out H; cbn [Spec.parse_from].
    - rewrite app_nil_r. reflexivity.
    - rewrite len_cons in H. pose proof (len_nonneg t) as Ht.
      unfold Spec.push; cbn [a_p a_out].
      assert (E : len (bs ++ [x]) = len bs + 1) by (rewrite len_app, len_cons, len_nil; lia).
      destruct (len (bs ++ [x]) <? 4) eqn:E1; [|lia].
      cbn [bind]. rewrite IH by lia. rewrite <- app_assoc. reflexivity.
  Qed.

  Lemma parse_hdr_complete xs : forall bs out,
    len bs + len xs = 4 -> 0 < len xs ->
    parse_from (mkA (Hdr bs) out) xs = hdr_done (bs ++ xs) out.
  Proof.
    induction xs as [|x t IH]; intros bs out H Hpos.
    - exfalso; revert Hpos; unfold len; cbn; lia.
    - rewrite len_cons in H. pose proof (len_nonneg t) as Ht.
      cbn [Spec.parse_from]. unfold Spec.push; cbn [a_p a_out].
      assert (E : len (bs ++ [x]) = len bs + 1) by (rewrite len_app, len_cons, len_nil; lia).
      destruct (len (bs ++ [x]) <? 4) eqn:E1.
      + cbn [bind]. rewrite IH by lia. rewrite <- app_assoc. reflexivity.
      + assert (Ht0 : t = []) by (apply len_zero_nil; lia). subst t.
        unfold hdr_done.
        destruct (be32_decode (bs ++ [x]) =? 0) eqn:E2.
        * destruct (emit [] out) as [a| |e]; reflexivity.
        * reflexivity.
  Qed.

  Lemma parse_body_partial xs : forall size bs out,
    len bs + len xs < size ->
    parse_from (mkA (Body size bs) out) xs = Ok (mkA (Body size (bs ++ xs)) out).
  Proof.
    induction xs as [|x t IH]; intros size bs out H; cbn [Spec.parse_from].
    - rewrite app_nil_r. reflexivity.
    - rewrite len_cons in H. pose proof (len_nonneg t) as Ht.
      unfold Spec.push; cbn [a_p a_out].
      assert (E : len (bs ++ [x]) = len bs + 1) by (rewrite len_app, len_cons, len_nil; lia).
      destruct (len (bs ++ [x]) <? size) eqn:E1; [|lia].
      cbn [bind]. rewrite IH by lia. rewrite <- app_assoc. reflexivity.
  Qed.

  Lemma parse_body_complete xs : forall size bs out,
    len bs + len xs = size -> 0 < len xs ->
    parse_from (mkA (Body size bs) out) xs = emit (bs ++ xs) out.
  Proof.
    induction xs as [|x t IH]; intros size bs out H Hpos.
    - exfalso; revert Hpos; unfold len; cbn; lia.
    - rewrite len_cons in H. pose proof (len_nonneg t) as Ht.
      cbn [Spec.parse_from]. unfold Spec.push; cbn [a_p a_out].
      assert (E : len (bs ++ [x]) = len bs + 1) by (rewrite len_app, len_cons, len_nil; lia).
      destruct (len (bs ++ [x]) <? size) eqn:E1.
      + cbn [bind]. rewrite IH by lia. rewrite <- app_assoc. reflexivity.
      + assert (Ht0 : t = []) by (apply len_zero_nil; lia). subst t.
        destruct (emit (bs ++ [x]) out) as [a| |e]; reflexivity.
  Qed.

  (* the automaton means the format: a length prefix followed by that many bytes is one frame *)
  Lemma parse_frame_lemma f rest out :
    len f < 4294967296 ->
    parse_from (mkA (Hdr []) out) (frame_of f ++ rest) = (a <- emit f out ;; parse_from a rest).
  Proof.
    intros Hf. pose proof (len_nonneg f) as Hf0.
    unfold frame_of. rewrite <- app_assoc. rewrite parse_from_app.
    rewrite parse_hdr_complete by (rewrite len_be32_encode, ?len_nil; lia).
    cbn [app]. unfold hdr_done. rewrite be32_decode_encode by lia.
    destruct (len f =? 0) eqn:E0.
    - assert (f = []) by (apply len_zero_nil; lia). subst f. cbn [app].
      destruct (emit [] out) as [a| |e]; reflexivity.
    - cbn [bind]. rewrite parse_from_app.
      rewrite parse_body_complete by (rewrite ?len_nil; lia). reflexivity.
  Qed.

  (* ---------------------------------------------------------------- the reader *)
  Definition bufc (s : st) : list byte := match s_buf s with None => [] | Some b => b end.

  Definition wf (s : st) : Prop :=
    if s_size s =? 0 then s_buf s = None /\ len (s_partial s) < 4
    else 0 < s_size s /\ s_partial s = [] /\
         match s_buf s with None => True | Some b => s_pos s = len b /\ len b < s_size s end.

  (* between the two halves of an iteration: the prefix is complete, a zero-length frame may be pending *)
  Definition wfb (s : st) : Prop :=
    s_partial s = [] /\
    if s_size s =? 0 then s_buf s = None
    else 0 < s_size s /\ match s_buf s with None => True | Some b => s_pos s = len b /\ len b < s_size s end.

  Definition bview (s : st) : res ast :=
    if s_size s =? 0 then emit [] (s_out s) else Ok (mkA (Body (s_size s) (bufc s)) (s_out s)).

  Definition obs2 (r : res (st * list byte)) : res (ast * list byte) :=
    match r with Ok (s, b) => Ok (abs s, b) | Oob => Oob | Raise e => Raise e end.

  Definition obs (r : res st) : res ast :=
    match r with Ok s => Ok (abs s) | Oob => Oob | Raise e => Raise e end.

  Lemma wf_init : wf s_init.
  Proof. unfold wf, s_init; cbn. split; [reflexivity|lia]. Qed.

  Lemma decompress_ptr_emit frame s :
    match decompress_ptr frame s with
    | Ok s' => emit frame (s_out s) = Ok (mkA (Hdr []) (s_out s')) /\
               s_size s' = s_size s /\ s_pos s' = s_pos s /\ s_buf s' = s_buf s /\ s_partial s' = s_partial s
    | Oob => emit frame (s_out s) = Oob
    | Raise e => emit frame (s_out s) = Raise e
    end.
  Proof.
    unfold Model.decompress_ptr, Spec.emit.
    destruct (D frame) as [d| |e]; cbn [bind]; try reflexivity.
    destruct (len (s_out s) + len d <=? cap); cbn; auto.
  Qed.

  Lemma read_body_refines s blk :
    wfb s ->
    exists consumed rest,
      blk = consumed ++ rest /\
      obs2 (read_body s blk) = (a <- (a0 <- bview s ;; parse_from a0 consumed) ;; Ok (a, rest)) /\
      (forall s' r, read_body s blk = Ok (s', r) -> wf s') /\
      (s_size s <> 0 -> 0 < len blk -> 0 < len consumed).
  Proof.
    intros [Hp Hw]. unfold Model.read_body, bview, bufc.
    pose proof (len_nonneg blk) as Hblk.
    destruct (s_size s =? 0) eqn:Ez.
    - (* a zero-length frame is pending: the fast path decodes the empty frame *)
      assert (Hs : s_size s = 0) by lia. rewrite Hw. rewrite Hs.
      destruct (len blk <? 0) eqn:E1; [lia|]. cbn [orb is_some].
      exists [], blk. split; [reflexivity|].
      rewrite (take_0 0 blk) by lia. rewrite (drop_0 0 blk) by lia.
      pose proof (decompress_ptr_emit [] s) as He.
      destruct (decompress_ptr [] s) as [s'| |e]; cbn [bind obs2].
      + destruct He as (He & H1 & H2 & H3 & H4). rewrite He. cbn [bind Spec.parse_from].
        split; [|split; [|intros; lia]].
        * unfold abs; cbn. rewrite H4, Hp. reflexivity.
        * intros s'' r H; inversion H; subst. unfold wf; cbn. rewrite H3, Hw, H4, Hp. cbn. split; [reflexivity|lia].
      + rewrite He. cbn. split; [reflexivity|]. split; [discriminate|intros; lia].
      + rewrite He. cbn. split; [reflexivity|]. split; [discriminate|intros; lia].
    - destruct Hw as [Hsz Hb].
      destruct (s_buf s) as [b|] eqn:Eb.
      + (* already filling the buffer *)
        destruct Hb as [Hpos Hlt]. pose proof (len_nonneg b) as Hb0.
        replace ((len blk <? s_size s) || is_some (Some b)) with true by (cbn; rewrite orb_true_r; reflexivity).
        set (nb := Z.min (s_size s - s_pos s) (len blk)).
        assert (Hnb : 0 <= nb <= len blk) by (unfold nb; lia).
        exists (take nb blk), (drop nb blk). split; [symmetry; apply take_drop|].
        assert (Hlt' : len (take nb blk) = nb) by (apply len_take; lia).
        cbn [bind].
        destruct (s_pos s + nb =? s_size s) eqn:E2.
        * rewrite parse_body_complete by lia.
          pose proof (decompress_ptr_emit (b ++ take nb blk)
                        (mkSt (s_size s) (s_pos s + nb) (Some (b ++ take nb blk)) (s_partial s) (s_out s))) as He.
          cbn [s_out] in He.
          destruct (decompress_ptr _ _) as [s'| |e]; cbn [bind obs2].
          -- destruct He as (He & H1 & H2 & H3 & H4). cbn in H1, H2, H3, H4. rewrite He. cbn [bind].
             split; [|split; [|intros; lia]].
             ++ unfold abs; cbn. rewrite H4, Hp. reflexivity.
             ++ intros s'' r H; inversion H; subst. unfold wf; cbn. rewrite H4, Hp. cbn. split; [reflexivity|lia].
          -- rewrite He. cbn. split; [reflexivity|]. split; [discriminate|intros; lia].
          -- rewrite He. cbn. split; [reflexivity|]. split; [discriminate|intros; lia].
        * rewrite parse_body_partial by lia. cbn [bind obs2].
          split; [|split; [|intros; lia]].
          -- unfold abs; cbn. rewrite Ez. reflexivity.
          -- intros s'' r H; inversion H; subst. unfold wf; cbn. rewrite Ez.
             split; [lia|]. split; [exact Hp|]. rewrite len_app. lia.
      + destruct (len blk <? s_size s) eqn:E1; cbn [orb is_some].
        * (* start a buffer *)
          set (nb := Z.min (s_size s - 0) (len blk)).
          assert (Hnb : nb = len blk) by (unfold nb; lia).
          exists (take nb blk), (drop nb blk). split; [symmetry; apply take_drop|].
          assert (Hlt' : len (take nb blk) = nb) by (apply len_take; lia).
          cbn [bind app].
          destruct (0 + nb =? s_size s) eqn:E2; [lia|].
          rewrite parse_body_partial by (rewrite len_nil; lia). cbn [bind obs2 app].
          split; [|split; [|intros; lia]].
          -- unfold abs; cbn. rewrite Ez. reflexivity.
          -- intros s'' r H; inversion H; subst. unfold wf; cbn. rewrite Ez.
             split; [lia|]. split; [exact Hp|]. lia.
        * (* at least one full frame in the block *)
          exists (take (s_size s) blk), (drop (s_size s) blk). split; [symmetry; apply take_drop|].
          assert (Hlt' : len (take (s_size s) blk) = s_size s) by (apply len_take; lia).
          cbn [bind].
          rewrite parse_body_complete by (rewrite ?len_nil; lia). cbn [app].
          pose proof (decompress_ptr_emit (take (s_size s) blk) s) as He.
          destruct (decompress_ptr _ _) as [s'| |e]; cbn [bind obs2].
          -- destruct He as (He & H1 & H2 & H3 & H4). rewrite He. cbn [bind].
             split; [|split; [|intros; lia]].
             ++ unfold abs; cbn. rewrite H4, Hp. reflexivity.
             ++ intros s'' r H; inversion H; subst. unfold wf; cbn. rewrite H3, Eb, H4, Hp. cbn. split; [reflexivity|lia].
          -- rewrite He. cbn. split; [reflexivity|]. split; [discriminate|intros; lia].
          -- rewrite He. cbn. split; [reflexivity|]. split; [discriminate|intros; lia].
  Qed.

  Lemma unpack_be32_ok l : len l = 4 -> unpack_be32 l = Ok (be32_decode l).
  Proof. intros H. unfold unpack_be32. rewrite H. reflexivity. Qed.

  Lemma wfb_of_header s size :
    s_size s = 0 -> s_buf s = None -> 0 <= size ->
    wfb (mkSt size (s_pos s) (s_buf s) [] (s_out s)).
  Proof.
    intros Hs Hb Hsz. unfold wfb; cbn. split; [reflexivity|].
    destruct (size =? 0) eqn:E; [exact Hb|]. rewrite Hb. split; [lia|exact I].
  Qed.

  Lemma bview_of_header s size :
    s_buf s = None ->
    bview (mkSt size (s_pos s) (s_buf s) [] (s_out s)) =
    (if size =? 0 then emit [] (s_out s) else Ok (mkA (Body size []) (s_out s))).
  Proof. intros Hb. unfold bview, bufc; cbn. rewrite Hb. reflexivity. Qed.

  (* first half of an iteration *)
  Lemma read_header_refines s block :
    wf s -> 0 < len block ->
    match read_header s block with
    | Ok (Break s') => wf s' /\ parse_from (abs s) block = Ok (abs s')
    | Ok (Cont s' blk) =>
        wfb s' /\ exists consumed, block = consumed ++ blk /\
                                   parse_from (abs s) consumed = bview s' /\
                                   (s_size s = 0 -> 0 < len consumed) /\
                                   (s_size s <> 0 -> s_size s' = s_size s /\ blk = block)
    | Oob | Raise _ => False
    end.
  Proof.
    intros Hw Hpos. unfold wf in Hw. unfold read_header, abs.
    destruct (s_size s =? 0) eqn:Ez.
    - destruct Hw as [Hb Hpl]. pose proof (len_nonneg (s_partial s)) as Hp0.
      assert (Hs : s_size s = 0) by lia.
      destruct (len (s_partial s) + len block <? 4) eqn:E1.
      + (* the whole block goes into the partial prefix *)
        split.
        * unfold wf; cbn. rewrite Ez. split; [exact Hb|]. rewrite len_app. lia.
        * rewrite parse_hdr_partial by lia. cbn. rewrite Ez. reflexivity.
      + destruct (len (s_partial s) =? 0) eqn:E2; cbn [negb].
        * (* read the prefix directly from the block *)
          assert (Hpn : s_partial s = []) by (apply len_zero_nil; lia).
          assert (Hl4 : len (take 4 block) = 4) by (apply len_take; lia).
          rewrite unpack_be32_ok by exact Hl4. cbn [bind].
          rewrite Hpn in *. split.
          -- apply wfb_of_header; [exact Hs|exact Hb|apply be32_decode_nonneg].
          -- exists (take 4 block). split; [symmetry; apply take_drop|].
             rewrite parse_hdr_complete by (try change (len (@nil byte)) with 0; lia). cbn [app].
             rewrite bview_of_header by exact Hb. unfold hdr_done.
             split; [reflexivity|]. split; [intros; lia|intros; lia].
        * (* finish a prefix started in an earlier chunk *)
          set (remaining := 4 - len (s_partial s)).
          destruct (remaining =? 0) eqn:E3; [unfold remaining in E3; lia|]. cbn [negb].
          assert (Hr : 0 < remaining <= len block) by (unfold remaining; lia).
          assert (Hlt : len (take remaining block) = remaining) by (apply len_take; lia).
          rewrite unpack_be32_ok by (rewrite len_app; unfold remaining in *; lia). cbn [bind].
          split.
          -- apply wfb_of_header; [exact Hs|exact Hb|apply be32_decode_nonneg].
          -- exists (take remaining block). split; [symmetry; apply take_drop|].
             rewrite parse_hdr_complete by (unfold remaining in *; lia).
             rewrite bview_of_header by exact Hb. unfold hdr_done.
             split; [reflexivity|]. split; [intros; lia|intros; lia].
    - destruct Hw as (Hsz & Hpn & Hb). split.
      + unfold wfb. rewrite Ez. split; [exact Hpn|]. split; [exact Hsz|exact Hb].
      + exists []. split; [reflexivity|]. cbn [Spec.parse_from]. unfold bview, bufc. rewrite Ez.
        split; [reflexivity|]. split; [intros; lia|intros; split; reflexivity].
  Qed.

  (* one iteration of the while loop consumes a non-empty prefix of the block and tracks the automaton *)
  Lemma iter_refines s block :
    wf s -> 0 < len block ->
    exists consumed rest,
      block = consumed ++ rest /\ 0 < len consumed /\
      obs2 (iter s block) = (a <- parse_from (abs s) consumed ;; Ok (a, rest)) /\
      (forall s' r, iter s block = Ok (s', r) -> wf s').
  Proof.
    intros Hw Hpos. pose proof (read_header_refines s block Hw Hpos) as Hh.
    unfold Model.iter.
    destruct (read_header s block) as [[s1|s1 blk]| |e]; try contradiction; cbn [bind].
    - destruct Hh as [Hw1 Hp]. exists block, []. rewrite app_nil_r.
      split; [reflexivity|]. split; [exact Hpos|]. rewrite Hp. cbn.
      split; [reflexivity|]. intros s' r H; inversion H; subst; exact Hw1.
    - destruct Hh as [Hwb (c1 & Hsplit & Hp1 & Hprog0 & Hprog1)].
      destruct (read_body_refines s1 blk Hwb) as (c2 & rest & Hsplit2 & Hobs & Hwf & Hprog2).
      exists (c1 ++ c2), rest. split; [rewrite Hsplit, Hsplit2, app_assoc; reflexivity|].
      split.
      + rewrite len_app. pose proof (len_nonneg c1). pose proof (len_nonneg c2).
        destruct (Z.eq_dec (s_size s) 0) as [E|E]; [specialize (Hprog0 E); lia|].
        destruct (Hprog1 E) as [E1 E2].
        assert (0 < len c2) by (apply Hprog2; [rewrite E1; exact E|rewrite E2; exact Hpos]). lia.
      + split; [|exact Hwf].
        rewrite Hobs. rewrite parse_from_app. rewrite Hp1.
        destruct (bview s1) as [a0| |e]; cbn [bind]; reflexivity.
  Qed.

  Lemma feed_fuel_refines fuel : forall s block,
    wf s -> (length block < fuel)%nat ->
    obs (feed_fuel fuel s block) = parse_from (abs s) block /\
    (forall s', feed_fuel fuel s block = Ok s' -> wf s').
  Proof.
    induction fuel as [|f IH]; intros s block Hw Hf; [lia|].
    cbn [Model.feed_fuel].
    destruct (len block =? 0) eqn:E0.
    - assert (block = []) by (apply len_zero_nil; lia). subst block. cbn.
      split; [reflexivity|]. intros s' H; inversion H; subst; exact Hw.
    - pose proof (len_nonneg block) as Hb0.
      destruct (iter_refines s block Hw ltac:(lia)) as (c & rest & Hsplit & Hc & Hobs & Hwf).
      assert (Hlen : (length rest < f)%nat).
      { subst block. rewrite app_length in Hf. unfold len in Hc. lia. }
      rewrite Hsplit at 2. rewrite parse_from_app.
      destruct (iter s block) as [[s1 r1]| |e] eqn:Ei; cbn [bind obs2] in *.
      + destruct (parse_from (abs s) c) as [a| |e]; cbn [bind] in Hobs; try discriminate.
        inversion Hobs; subst a r1. cbn [bind].
        apply IH; [apply (Hwf s1 rest); reflexivity|exact Hlen].
      + destruct (parse_from (abs s) c) as [a| |e]; cbn [bind] in Hobs; try discriminate.
        cbn. split; [reflexivity|discriminate].
      + destruct (parse_from (abs s) c) as [a| |e']; cbn [bind] in Hobs; try discriminate.
        inversion Hobs; subst. cbn. split; [reflexivity|discriminate].
  Qed.

  Lemma feed_refines_parse_lemma s block :
    wf s ->
    obs (feed s block) = parse_from (abs s) block /\ (forall s', feed s block = Ok s' -> wf s').
  Proof. intros Hw. unfold Model.feed. apply feed_fuel_refines; [exact Hw|lia]. Qed.

  (* more fuel changes nothing: the out-of-fuel branch is never reached *)
  Lemma fuel_sufficient_lemma fuel : forall s block,
    wf s -> (length block < fuel)%nat -> feed_fuel fuel s block = feed s block.
  Proof.
    unfold Model.feed.
    assert (G : forall f1 f2 s block, wf s -> (length block < f1)%nat -> (length block < f2)%nat ->
                                      feed_fuel f1 s block = feed_fuel f2 s block).
    { induction f1 as [|f1 IH]; intros f2 s block Hw H1 H2; [lia|].
      destruct f2 as [|f2]; [lia|]. cbn [Model.feed_fuel].
      destruct (len block =? 0) eqn:E0; [reflexivity|].
      pose proof (len_nonneg block) as Hb0.
      destruct (iter_refines s block Hw ltac:(lia)) as (c & rest & Hsplit & Hc & Hobs & Hwf).
      destruct (iter s block) as [[s1 r1]| |e] eqn:Ei; cbn [bind]; try reflexivity.
      cbn [obs2] in Hobs.
      destruct (parse_from (abs s) c) as [a| |e]; cbn [bind] in Hobs; try discriminate.
      inversion Hobs; subst a r1.
      assert (Hlen : (length rest < length block)%nat).
      { subst block. rewrite app_length. unfold len in Hc. lia. }
      apply IH; [apply (Hwf s1 rest); reflexivity|lia|lia]. }
    intros s block Hw Hf. apply G; [exact Hw|exact Hf|lia].
  Qed.

  Lemma feed_all_refines chunks : forall s,
    wf s ->
    obs (feed_all s chunks) = parse_from (abs s) (concat chunks) /\
    (forall s', feed_all s chunks = Ok s' -> wf s').
  Proof.
    induction chunks as [|c t IH]; intros s Hw; cbn [Model.feed_all concat].
    - cbn. split; [reflexivity|]. intros s' H; inversion H; subst; exact Hw.
    - destruct (feed_refines_parse_lemma s c Hw) as [Ho Hwf].
      rewrite parse_from_app. rewrite <- Ho.
      destruct (feed s c) as [s1| |e]; cbn [bind obs].
      + apply IH. apply Hwf. reflexivity.
      + split; [reflexivity|discriminate].
      + split; [reflexivity|discriminate].
  Qed.

  Lemma abs_init : abs s_init = a_init.
  Proof. reflexivity. Qed.

  Lemma decompress_refines_parse_lemma chunks :
    obs (decompress chunks) = parse (concat chunks).
  Proof. unfold Model.decompress, Spec.parse. rewrite <- abs_init. apply feed_all_refines. apply wf_init. Qed.

  Lemma chunking_independent_lemma cs cs' :
    concat cs = concat cs' -> obs (decompress cs) = obs (decompress cs').
  Proof. intros H. rewrite !decompress_refines_parse_lemma. rewrite H. reflexivity. Qed.

  (* what the caller sees *)
  Definition visible (r : res st) : res (list byte * Z) :=
    match r with Ok s => Ok (s_out s, returned s) | Oob => Oob | Raise e => Raise e end.

  Lemma visible_of_obs r : visible r = match obs r with Ok a => Ok (result_of a) | Oob => Oob | Raise e => Raise e end.
  Proof. destruct r; reflexivity. Qed.

  Lemma chunking_independent_visible_lemma cs cs' :
    concat cs = concat cs' -> visible (decompress cs) = visible (decompress cs').
  Proof. intros H. rewrite !visible_of_obs. rewrite (chunking_independent_lemma cs cs' H). reflexivity. Qed.

  Lemma chunking_independent_both_lemma cs cs' :
    concat cs = concat cs' ->
    obs (decompress cs) = obs (decompress cs') /\ visible (decompress cs) = visible (decompress cs').
  Proof.
    intros H. split; [exact (chunking_independent_lemma cs cs' H)|exact (chunking_independent_visible_lemma cs cs' H)].
  Qed.

  (* the output never exceeds the buffer *)
  Lemma parse_from_cap l : forall a a', len (a_out a) <= cap -> parse_from a l = Ok a' -> len (a_out a') <= cap.
  Proof.
    assert (Hemit : forall f out a', emit f out = Ok a' -> len (a_out a') <= cap).
    { intros f out a'. unfold Spec.emit. destruct (D f) as [d| |e]; cbn [bind]; try discriminate.
      destruct (len out + len d <=? cap) eqn:E; [|discriminate].
      intros H; inversion H; subst; cbn. rewrite len_app. lia. }
    induction l as [|x t IH]; intros a a' Ha H; cbn [Spec.parse_from] in H.
    - inversion H; subst; exact Ha.
    - destruct (push a x) as [a1| |e] eqn:Ep; cbn [bind] in H; try discriminate.
      apply (IH a1 a'); [|exact H].
      unfold Spec.push in Ep. destruct (a_p a) as [bs|size bs].
      + destruct (len (bs ++ [x]) <? 4); [inversion Ep; subst; exact Ha|].
        destruct (be32_decode (bs ++ [x]) =? 0); [eapply Hemit; exact Ep|inversion Ep; subst; exact Ha].
      + destruct (len (bs ++ [x]) <? size); [inversion Ep; subst; exact Ha|eapply Hemit; exact Ep].
  Qed.
End Refine.
