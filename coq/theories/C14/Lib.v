(* C14/Lib.v — bytes, big-endian words, take/drop. *)
From Coq Require Import ZArith List Bool Lia Strings.Byte ZifyBool.
From Abacus.Common Require Import Arr.
From Abacus.C14 Require Import Spec Model.
Import ListNotations.
Local Open Scope Z_scope.
Ltac Zify.zify_post_hook ::= Z.to_euclidean_division_equations.

Lemma bval_range b : 0 <= bval b < 256.
Proof. unfold bval. pose proof (Byte.to_N_bounded b) as H. lia. Qed.

Lemma bval_byte_of_Z z : bval (byte_of_Z z) = z mod 256.
Proof.
  unfold bval, byte_of_Z.
  assert (Hm : 0 <= z mod 256 < 256) by (apply Z.mod_pos_bound; lia).
  destruct (Byte.of_N (Z.to_N (z mod 256))) eqn:E.
  - apply Byte.to_of_N in E. rewrite E. rewrite Z2N.id; lia.
  - apply Byte.of_N_None_iff in E. lia.
Qed.

Lemma byte_of_Z_bval b : byte_of_Z (bval b) = b.
Proof.
  unfold byte_of_Z. pose proof (bval_range b) as R. rewrite Z.mod_small by lia.
  unfold bval. rewrite N2Z.id. rewrite Byte.of_to_N. reflexivity.
Qed.

Lemma be32_decode_4 a b c d :
  be32_decode [a; b; c; d] = ((bval a * 256 + bval b) * 256 + bval c) * 256 + bval d.
Proof. unfold be32_decode. cbn [fold_left]. lia. Qed.

Lemma len_be32_encode n : len (be32_encode n) = 4.
Proof. reflexivity. Qed.

Lemma be32_decode_encode n : 0 <= n < 4294967296 -> be32_decode (be32_encode n) = n.
Proof.
  intros H. unfold be32_encode. rewrite be32_decode_4. rewrite !bval_byte_of_Z. lia.
Qed.

Lemma fold_be_nonneg l : forall acc, 0 <= acc -> 0 <= fold_left (fun acc b => acc * 256 + bval b) l acc.
Proof.
  induction l as [|x t IH]; intros acc H; cbn [fold_left]; [exact H|].
  apply IH. pose proof (bval_range x). lia.
Qed.

Lemma be32_decode_nonneg l : 0 <= be32_decode l.
Proof. apply fold_be_nonneg. lia. Qed.

(* ---- take / drop ---- *)
Lemma take_drop {A} n (l : list A) : take n l ++ drop n l = l.
Proof. apply firstn_skipn. Qed.

Lemma len_take {A} n (l : list A) : 0 <= n <= len l -> len (take n l) = n.
Proof. intros H. unfold take, len in *. rewrite firstn_length. lia. Qed.

Lemma len_take_le {A} n (l : list A) : len (take n l) <= len l.
Proof. unfold take, len. rewrite firstn_length. lia. Qed.

Lemma len_drop {A} n (l : list A) : 0 <= n <= len l -> len (drop n l) = len l - n.
Proof. intros H. unfold drop, len in *. rewrite skipn_length. lia. Qed.

Lemma take_all {A} n (l : list A) : len l <= n -> take n l = l.
Proof. intros H. unfold take, len in *. apply firstn_all2. lia. Qed.

Lemma drop_all {A} n (l : list A) : len l <= n -> drop n l = [].
Proof. intros H. unfold drop, len in *. apply skipn_all2. lia. Qed.

Lemma take_0 {A} n (l : list A) : n <= 0 -> take n l = [].
Proof. intros H. unfold take. replace (Z.to_nat n) with O by lia. reflexivity. Qed.

Lemma drop_0 {A} n (l : list A) : n <= 0 -> drop n l = l.
Proof. intros H. unfold drop. replace (Z.to_nat n) with O by lia. reflexivity. Qed.

Lemma take_app_exact {A} (a b : list A) : take (len a) (a ++ b) = a.
Proof.
  unfold take, len. rewrite Nat2Z.id. rewrite firstn_app, Nat.sub_diag, firstn_all. cbn. apply app_nil_r.
Qed.

Lemma drop_app_exact {A} (a b : list A) : drop (len a) (a ++ b) = b.
Proof.
  unfold drop, len. rewrite Nat2Z.id. rewrite skipn_app, Nat.sub_diag, skipn_all. reflexivity.
Qed.

Lemma take_take_drop {A} a b (l : list A) : 0 <= a -> 0 <= b -> take a l ++ take b (drop a l) = take (a + b) l.
Proof.
  intros Ha Hb. unfold take, drop. rewrite Z2Nat.inj_add by lia.
  generalize (Z.to_nat a) (Z.to_nat b). clear. intros n m. revert l.
  induction n as [|n IH]; intros l; [reflexivity|].
  destruct l as [|x l]; cbn [firstn skipn Nat.add app].
  - rewrite firstn_nil. reflexivity.
  - rewrite IH. reflexivity.
Qed.

Lemma drop_drop {A} a b (l : list A) : 0 <= a -> 0 <= b -> drop b (drop a l) = drop (a + b) l.
Proof.
  intros Ha Hb. unfold drop. rewrite Z2Nat.inj_add by lia.
  generalize (Z.to_nat a) (Z.to_nat b). clear. intros n m. revert l.
  induction n as [|n IH]; intros l; [reflexivity|].
  destruct l as [|x l]; cbn [skipn Nat.add].
  - destruct m; reflexivity.
  - apply IH.
Qed.

Lemma len_pos_cons {A} (l : list A) : 0 < len l -> exists x t, l = x :: t.
Proof. destruct l as [|x t]; [unfold len; cbn; lia|eauto]. Qed.

Lemma len_zero_nil {A} (l : list A) : len l = 0 -> l = [].
Proof. destruct l; [reflexivity|rewrite len_cons; pose proof (len_nonneg l); lia]. Qed.

Lemma len_take_le2 {A} n (l : list A) : 0 <= n -> len (take n l) <= n.
Proof. intros H. unfold take, len. pose proof (firstn_le_length (Z.to_nat n) l). lia. Qed.
