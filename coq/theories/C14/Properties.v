(* C14/Properties.v — the property theorems about the model of BloscCompressor.decompress / compress
   (Model.v, tied to the code by the state-by-state correspondence run).  Statements only.

   Reading guide.  [decompress D cap chunks] is the reader run on the successive read chunks with an output buffer
   of [cap] bytes; its result [Ok s] carries the bytes written ([s_out s]), the returned length ([returned s]) and the
   residual reader variables; [Oob] is a write past the end of the output buffer, [Raise e] an error of the codec.
   [obs] forgets everything but the abstraction [abs s] = (residual parser state, bytes out); [visible] keeps only what
   the caller of decompress sees: (bytes out, returned length).  [parse D cap stream] is the specification: a per-byte
   automaton run over the whole stream, which by construction knows nothing about chunks.  The codec D is arbitrary
   (any function, may fail); the round trip assumes D (C x) = x and |C x| < 2^32 for inputs up to [maxin] bytes. *)
From Coq Require Import ZArith List Strings.Byte.
From Abacus.Common Require Import Arr.
From Abacus.C14 Require Import Spec Model Lib Proofs RoundTrip.
Import ListNotations.
Local Open Scope Z_scope.

(* The specification automaton means the format: a big-endian 32-bit length followed by that many bytes is one frame,
   decoded and appended (or an error / overrun), then the rest of the stream. *)
Theorem parse_frame : forall D cap f rest out,
  len f < 4294967296 ->
  parse_from D cap (mkA (Hdr []) out) (frame_of f ++ rest) = (a <- emit D cap f out ;; parse_from D cap a rest).
Proof. exact parse_frame_lemma. Qed.
Print Assumptions parse_frame.

(* ★ One `for block in blocks` body: from any reachable reader state, feeding a chunk (of any length, 0 and 1
   included) leaves the reader in a state whose abstraction is the automaton's state after the same bytes; errors and
   overruns coincide too; the invariant [wf] is preserved. *)
Theorem feed_refines_parse : forall D cap s block,
  wf s ->
  obs (feed D cap s block) = parse_from D cap (abs s) block /\
  (forall s', feed D cap s block = Ok s' -> wf s').
Proof. exact feed_refines_parse_lemma. Qed.
Print Assumptions feed_refines_parse.

(* ★ Whole call: after any list of chunks the reader is the abstraction of the automaton after concat chunks. *)
Theorem decompress_refines_parse : forall D cap chunks,
  obs (decompress D cap chunks) = parse D cap (concat chunks).
Proof. exact decompress_refines_parse_lemma. Qed.
Print Assumptions decompress_refines_parse.

(* ★ Chunking independence, for ALL chunkings of ALL streams (valid, truncated or malformed) and every codec:
   same bytes, same returned length, same residual parser state, same error class. *)
Theorem chunking_independent : forall D cap cs cs',
  concat cs = concat cs' ->
  obs (decompress D cap cs) = obs (decompress D cap cs') /\
  visible (decompress D cap cs) = visible (decompress D cap cs').
Proof. exact chunking_independent_both_lemma. Qed.
Print Assumptions chunking_independent.

(* The `while len(block)` loop terminates within its fuel: any larger fuel gives the same result. *)
Theorem fuel_sufficient : forall D cap fuel s block,
  wf s -> (length block < fuel)%nat -> feed_fuel D cap fuel s block = feed D cap s block.
Proof. exact fuel_sufficient_lemma. Qed.
Print Assumptions fuel_sufficient.

(* ★ Round trip: for every payload (a buffer of items of itemsz bytes), every item size <= compression block size,
   and every way of cutting the concatenated compress output into read chunks, decompress writes exactly the payload,
   returns its length and ends on a frame boundary (and never writes past a buffer of the payload's size). *)
Theorem roundtrip : forall (C : list byte -> list byte) (D : list byte -> res (list byte)) (maxin : Z),
  (forall x, len x <= maxin -> D (C x) = Ok x) ->
  (forall x, len x <= maxin -> len (C x) < 4294967296) ->
  forall blocksz itemsz data cap,
  0 < itemsz <= blocksz -> blocksz <= maxin -> len data mod itemsz = 0 -> len data <= cap ->
  exists blocks,
    compress C blocksz itemsz data = Ok blocks /\
    forall cs, concat cs = concat blocks ->
      exists s, decompress D cap cs = Ok s /\ s_out s = data /\ returned s = len data /\
                s_size s = 0 /\ s_partial s = [].
Proof. exact roundtrip_lemma. Qed.
Print Assumptions roundtrip.

(* A compression block smaller than one item is rejected (range() with step 0) before anything is yielded. *)
Theorem compress_rejects_small_block : forall C blocksz itemsz data,
  0 <= blocksz < itemsz -> compress C blocksz itemsz data = Raise ValueError.
Proof. exact compress_rejects_lemma. Qed.
Print Assumptions compress_rejects_small_block.

(* A prefix announcing length 0 is NOT confused with "no frame yet": in the same loop iteration the reader takes the
   whole-frame branch and hands the empty frame to the codec, in every chunking.  (No hypothesis 0 < |C x| is needed
   anywhere; real codecs reject an empty frame, which then is the error reported.) *)
Theorem zero_length_frame : forall D cap rest cs,
  concat cs = be32_encode 0 ++ rest ->
  obs (decompress D cap cs) = (a <- emit D cap [] [] ;; parse_from D cap a rest).
Proof. exact zero_length_frame_lemma. Qed.
Print Assumptions zero_length_frame.

(* Memory safety of the model: Ok means every write stayed inside the cap bytes of `out` (an overrun is Oob). *)
Theorem output_within_buffer : forall D cap cs s,
  0 <= cap -> decompress D cap cs = Ok s -> len (s_out s) <= cap.
Proof. exact output_within_buffer_lemma. Qed.
Print Assumptions output_within_buffer.
