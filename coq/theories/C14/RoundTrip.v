(* C14/RoundTrip.v — compress followed by decompress (under any chunking) is the identity. *)
From Coq Require Import ZArith List Bool Lia Strings.Byte ZifyBool.
From Abacus.Common Require Import Arr.
From Abacus.C14 Require Import Spec Model Lib Proofs.
Import ListNotations.
Local Open Scope Z_scope.
Ltac Zify.zify_post_hook ::= Z.to_euclidean_division_equations.

Lemma map_res_ok {A B} (f : A -> res B) (g : A -> B) l :
  (forall a, In a l -> f a = Ok (g a)) -> map_res f l = Ok (map g l).
Proof.
  induction l as [|a t IH]; intros H; cbn [map_res map]; [reflexivity|].
  rewrite (H a) by (left; reflexivity). cbn [bind]. rewrite IH by (intros; apply H; right; assumption).
  reflexivity.
Qed.

Lemma iota_in n : forall k j, In j (iota n k) -> k <= j < k + Z.of_nat n.
Proof.
  induction n as [|n IH]; intros k j H; cbn [iota] in H; [contradiction|].
  destruct H as [H|H]; [lia|]. apply IH in H. lia.
Qed.

Lemma concat_pieces {A} (data : list A) B n : forall k,
  0 <= B -> 0 <= k ->
  concat (map (fun j => take B (drop (j * B) data)) (iota n k)) = take (Z.of_nat n * B) (drop (k * B) data).
Proof.
  induction n as [|n IH]; intros k HB Hk; cbn [iota map concat].
  - rewrite take_0 by lia. reflexivity.
  - rewrite IH by lia.
    replace ((k + 1) * B) with (k * B + B) by lia.
    rewrite <- drop_drop by lia. rewrite take_take_drop by lia. f_equal. lia.
Qed.

Section RoundTrip.
  Variable C : list byte -> list byte.
  Variable D : list byte -> res (list byte).
  Variable maxin : Z.
  (* the codec, for inputs up to [maxin] bytes (Blosc refuses larger buffers) *)
  Hypothesis DC : forall x, len x <= maxin -> D (C x) = Ok x.
  Hypothesis Clen : forall x, len x <= maxin -> len (C x) < 4294967296.

  Definition pieces (blocksz itemsz : Z) (data : list byte) : list (list byte) :=
    let nelem := blocksz / itemsz in
    let count := (len data / itemsz + nelem - 1) / nelem in
    map (fun j => take (nelem * itemsz) (drop (j * (nelem * itemsz)) data)) (iota (Z.to_nat count) 0).

  Lemma pieces_concat blocksz itemsz data :
    0 < itemsz <= blocksz -> len data mod itemsz = 0 -> concat (pieces blocksz itemsz data) = data.
  Proof.
    intros Hi Hm. unfold pieces.
    set (nelem := blocksz / itemsz). set (n := len data / itemsz).
    assert (Hne : 0 < nelem) by (unfold nelem; apply Z.div_str_pos; lia).
    pose proof (len_nonneg data) as Hd.
    assert (Hn : 0 <= n) by (unfold n; apply Z.div_pos; lia).
    assert (Hdn : len data = n * itemsz) by (unfold n; lia).
    set (count := (n + nelem - 1) / nelem).
    assert (Hc : 0 <= count /\ n <= count * nelem) by (unfold count; nia).
    rewrite concat_pieces by nia. rewrite drop_0 by lia. apply take_all.
    rewrite Z2Nat.id by lia. nia.
  Qed.

  Lemma pieces_small blocksz itemsz data p :
    0 < itemsz <= blocksz -> In p (pieces blocksz itemsz data) -> len p <= blocksz.
  Proof.
    intros Hi H. unfold pieces in H. apply in_map_iff in H. destruct H as (j & Hj & _). subst p.
    assert (0 <= blocksz / itemsz * itemsz <= blocksz) by nia.
    pose proof (len_take_le2 (blocksz / itemsz * itemsz) (drop (j * (blocksz / itemsz * itemsz)) data)). lia.
  Qed.

  Lemma compress_ok blocksz itemsz data :
    0 < itemsz <= blocksz -> blocksz <= maxin ->
    compress C blocksz itemsz data = Ok (map (fun p => frame_of (C p)) (pieces blocksz itemsz data)).
  Proof.
    intros Hi Hmax. unfold compress.
    assert (Hne : 0 < blocksz / itemsz) by (apply Z.div_str_pos; lia).
    destruct (blocksz / itemsz =? 0) eqn:E; [lia|].
    unfold pieces. rewrite map_map. apply map_res_ok. intros j Hj.
    replace (j * (blocksz / itemsz) * itemsz) with (j * (blocksz / itemsz * itemsz)) by lia.
    set (p := take (blocksz / itemsz * itemsz) (drop (j * (blocksz / itemsz * itemsz)) data)).
    assert (Hp : len p <= maxin).
    { assert (0 <= blocksz / itemsz * itemsz <= blocksz) by nia.
      pose proof (len_take_le2 (blocksz / itemsz * itemsz) (drop (j * (blocksz / itemsz * itemsz)) data)).
      unfold p. lia. }
    unfold pack_be32. pose proof (len_nonneg (C p)). pose proof (Clen p Hp).
    destruct ((0 <=? len (C p)) && (len (C p) <? 4294967296)) eqn:E2; [|lia].
    reflexivity.
  Qed.

  Lemma parse_stream cap ps : forall out,
    (forall p, In p ps -> len p <= maxin) ->
    len out + len (concat ps) <= cap ->
    parse_from D cap (mkA (Hdr []) out) (stream_of (map C ps)) = Ok (mkA (Hdr []) (out ++ concat ps)).
  Proof.
    induction ps as [|p t IH]; intros out Hs Hcap; cbn [map concat].
    - unfold stream_of; cbn. rewrite app_nil_r. reflexivity.
    - unfold stream_of; cbn [map concat]. fold (stream_of (map C t)).
      cbn [concat] in Hcap. rewrite len_app in Hcap. pose proof (len_nonneg (concat t)).
      rewrite parse_frame_lemma by (apply Clen; apply Hs; left; reflexivity).
      unfold emit. rewrite DC by (apply Hs; left; reflexivity). cbn [bind].
      destruct (len out + len p <=? cap) eqn:E; [|lia]. cbn [bind].
      rewrite IH; [rewrite <- app_assoc; reflexivity|intros; apply Hs; right; assumption|rewrite len_app; lia].
  Qed.

  Lemma abs_clean s out : abs s = mkA (Hdr []) out -> s_size s = 0 /\ s_partial s = [] /\ s_out s = out.
  Proof.
    unfold abs. destruct (s_size s =? 0) eqn:E; intros H; inversion H; subst. repeat split; try lia; assumption.
  Qed.

  Lemma roundtrip_lemma blocksz itemsz data cap :
    0 < itemsz <= blocksz -> blocksz <= maxin -> len data mod itemsz = 0 -> len data <= cap ->
    exists blocks,
      compress C blocksz itemsz data = Ok blocks /\
      forall cs, concat cs = concat blocks ->
        exists s, decompress D cap cs = Ok s /\ s_out s = data /\ returned s = len data /\
                  s_size s = 0 /\ s_partial s = [].
  Proof.
    intros Hi Hmax Hm Hcap. eexists. split; [apply compress_ok; assumption|].
    intros cs Hcs.
    pose proof (decompress_refines_parse_lemma D cap cs) as Hr.
    rewrite Hcs in Hr. rewrite <- map_map in Hr. fold (stream_of (map C (pieces blocksz itemsz data))) in Hr.
    unfold parse, a_init in Hr.
    rewrite parse_stream in Hr.
    - rewrite pieces_concat in Hr by assumption. cbn [app] in Hr.
      destruct (decompress D cap cs) as [s| |e]; cbn [obs] in Hr; try discriminate.
      assert (Ha : abs s = mkA (Hdr []) data) by congruence. apply abs_clean in Ha. destruct Ha as (H1 & H2 & H3).
      exists s. unfold returned. rewrite H3. repeat split; assumption.
    - intros p Hp. pose proof (pieces_small _ _ _ _ Hi Hp). lia.
    - rewrite pieces_concat by assumption. unfold len at 1; cbn. lia.
  Qed.

End RoundTrip.

Lemma compress_rejects_lemma C blocksz itemsz data :
  0 <= blocksz < itemsz -> compress C blocksz itemsz data = Raise ValueError.
Proof. intros H. unfold compress. rewrite Z.div_small by lia. reflexivity. Qed.

(* a prefix announcing length 0: the reader decodes the empty frame at once, whatever the chunking *)
Lemma zero_length_frame_lemma D cap rest cs :
  concat cs = be32_encode 0 ++ rest ->
  obs (decompress D cap cs) = (a <- emit D cap [] [] ;; parse_from D cap a rest).
Proof.
  intros H. rewrite decompress_refines_parse_lemma. rewrite H. unfold parse, a_init.
  change (be32_encode 0 ++ rest) with (frame_of [] ++ rest).
  apply parse_frame_lemma. unfold len; cbn; lia.
Qed.

Lemma output_within_buffer_lemma D cap cs s :
  0 <= cap -> decompress D cap cs = Ok s -> len (s_out s) <= cap.
Proof.
  intros Hc H. pose proof (decompress_refines_parse_lemma D cap cs) as Hr. rewrite H in Hr. cbn [obs] in Hr.
  symmetry in Hr. apply parse_from_cap in Hr; [exact Hr|]. unfold a_init, len; cbn. lia.
Qed.
