(* C14/PropertiesGen.v — the same property theorems stated about the reader REGENERATED from the source on every run
   (Gen.v, written by tools/gen/c14.py from BloscCompressor.decompress): tie [T].  gen_decompress is the translation of the
   body of decompress (initial locals, `for block in blocks`, `while len(block)`, the iteration body statement by statement);
   regenerated_reader_is_model identifies it with the hand-written model, whose theorems (Properties.v) then carry over.
   Statements only. *)
From Coq Require Import ZArith List Strings.Byte.
From Abacus.Common Require Import Arr.
From Abacus.C14 Require Import Spec Model Lib Proofs RoundTrip Gen TieGen.
Import ListNotations.
Local Open Scope Z_scope.

(* ★ one iteration of `while len(block):` as the code is written now = one iteration of the model, on every well-formed state *)
Theorem regenerated_iteration_is_model : forall D cap s block,
  wf s -> gen_iter D cap s block = iter D cap s block.
Proof. exact gen_iter_eq. Qed.
Print Assumptions regenerated_iteration_is_model.

(* ★ the whole call, for every codec, output capacity and list of read chunks *)
Theorem regenerated_reader_is_model : forall D cap chunks,
  gen_decompress D cap chunks = decompress D cap chunks.
Proof. exact gen_decompress_eq. Qed.
Print Assumptions regenerated_reader_is_model.

(* ★ the regenerated reader refines the per-byte specification automaton ... *)
Theorem regenerated_refines_parse : forall D cap chunks,
  obs (gen_decompress D cap chunks) = parse D cap (concat chunks).
Proof. exact gen_refines_parse. Qed.
Print Assumptions regenerated_refines_parse.

(* ★ ... hence its result does not depend on how the stream was cut into chunks *)
Theorem regenerated_chunking_independent : forall D cap cs cs',
  concat cs = concat cs' ->
  obs (gen_decompress D cap cs) = obs (gen_decompress D cap cs') /\
  visible (gen_decompress D cap cs) = visible (gen_decompress D cap cs').
Proof. exact gen_chunking_independent. Qed.
Print Assumptions regenerated_chunking_independent.

(* ★ ... and it inverts compress for every chunking of the compressed stream *)
Theorem regenerated_roundtrip : forall (C : list byte -> list byte) (D : list byte -> res (list byte)) (maxin : Z),
  (forall x, len x <= maxin -> D (C x) = Ok x) ->
  (forall x, len x <= maxin -> len (C x) < 4294967296) ->
  forall blocksz itemsz data cap,
  0 < itemsz <= blocksz -> blocksz <= maxin -> len data mod itemsz = 0 -> len data <= cap ->
  exists blocks,
    compress C blocksz itemsz data = Ok blocks /\
    forall cs, concat cs = concat blocks ->
      exists s, gen_decompress D cap cs = Ok s /\ s_out s = data /\ returned s = len data /\
                s_size s = 0 /\ s_partial s = [].
Proof. exact gen_roundtrip. Qed.
Print Assumptions regenerated_roundtrip.
