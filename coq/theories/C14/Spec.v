(* C14/Spec.v — specification of the 'blsc' block format, written independently of the reader's code.

   A compressed ASDF block is a byte stream  frame*  where  frame = be32(|f|) ++ f  and f is one codec frame.
   The meaning of a stream is given by a per-byte automaton [push] run over the WHOLE concatenated stream
   ([parse]); by construction it knows nothing about read chunks.  [parse_frame] (Proofs.v / Properties.v)
   shows the automaton means what the format says:  parse (be32 |f| ++ f ++ rest) = emit (D f) then parse rest.

   The codec is abstract: D is an arbitrary (partial) function from frames to bytes.  [cap] is the size of the
   output buffer handed to the reader; writing past it is Oob. *)
From Coq Require Import ZArith List Bool Lia Strings.Byte.
From Abacus.Common Require Import Arr.
Import ListNotations.
Local Open Scope Z_scope.

Definition bval (b : byte) : Z := Z.of_N (Byte.to_N b).

Definition byte_of_Z (z : Z) : byte :=
  match Byte.of_N (Z.to_N (z mod 256)) with Some b => b | None => x00 end.

(* struct '!I' : network byte order (big endian) unsigned 32 bit *)
Definition be32_decode (l : list byte) : Z := fold_left (fun acc b => acc * 256 + bval b) l 0.

Definition be32_encode (n : Z) : list byte :=
  [byte_of_Z (n / 16777216); byte_of_Z (n / 65536); byte_of_Z (n / 256); byte_of_Z n].

Definition frame_of (f : list byte) : list byte := be32_encode (len f) ++ f.

Inductive pst :=
| Hdr (bs : list byte)               (* |bs| < 4 bytes of a length prefix seen *)
| Body (size : Z) (bs : list byte).  (* prefix announced [size]; |bs| < size bytes of the frame seen *)

Record ast := mkA { a_p : pst; a_out : list byte }.

Section Spec.
  Variable D : list byte -> res (list byte).
  Variable cap : Z.

  (* a complete frame: decode it and append to the output *)
  Definition emit (frame out : list byte) : res ast :=
    d <- D frame ;;
    if len out + len d <=? cap then Ok (mkA (Hdr []) (out ++ d)) else Oob.

  Definition push (a : ast) (x : byte) : res ast :=
    match a_p a with
    | Hdr bs =>
        let bs' := bs ++ [x] in
        if len bs' <? 4 then Ok (mkA (Hdr bs') (a_out a))
        else
          let size := be32_decode bs' in
          if size =? 0 then emit [] (a_out a)   (* a frame of announced length 0 is complete at once *)
          else Ok (mkA (Body size []) (a_out a))
    | Body size bs =>
        let bs' := bs ++ [x] in
        if len bs' <? size then Ok (mkA (Body size bs') (a_out a)) else emit bs' (a_out a)
    end.

  Fixpoint parse_from (a : ast) (l : list byte) : res ast :=
    match l with
    | [] => Ok a
    | x :: t => a' <- push a x ;; parse_from a' t
    end.

  Definition a_init : ast := mkA (Hdr []) [].

  Definition parse (stream : list byte) : res ast := parse_from a_init stream.

  (* what the caller of decompress observes: the bytes in [out] and the returned length *)
  Definition result_of (a : ast) : list byte * Z := (a_out a, len (a_out a)).

  (* the stream ended on a frame boundary *)
  Definition clean (a : ast) : bool := match a_p a with Hdr [] => true | _ => false end.
End Spec.

(* the stream a writer produces for the list of codec frames fs *)
Definition stream_of (fs : list (list byte)) : list byte := concat (map frame_of fs).
