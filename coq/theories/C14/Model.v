(* C14/Model.v — hand-written executable model of abacusnbody/data/asdf.py : BloscCompressor.decompress / compress,
   statement by statement.  No proofs here.  Tie to the code: correspondence run (tools/harness/c14.py) that
   compares, after EVERY read chunk, the local variables of the real decompress (_size, _pos, _buffer[:_pos],
   _partial_len, bytesout) with this model's state, and the final output bytes / returned length.

   Representation choices (each is an invariant proved in Proofs.v or a stated modelling decision):
   * bytes are Coq's 256-constructor [byte];
   * _buffer (np.empty(_size), filled up to _pos) is represented by its filled prefix; the slice assignment
     _buffer[_pos:_pos+newbytes] = ... appends, because _pos = length of the filled prefix (invariant [wf]);
   * the raw output pointer: blosc.decompress_ptr(frame, out + bytesout) writes |D frame| bytes at offset bytesout
     and returns that number; bytesout is the sum of the returned numbers, so out[0:bytesout] is represented by the
     list [s_out] and bytesout = len s_out.  The destination has [cap] bytes: a frame that decodes to more than
     cap - bytesout bytes overruns the caller's buffer in the real code (ctypes/C memcpy through a raw address, no
     check) — the model returns Oob there;
   * the codec is the Section variable D (errors of the codec are whatever D returns);
   * timing (decompression_time) and the contiguity checks on [out]/[block] are not modelled. *)
From Coq Require Import ZArith List Bool Lia Strings.Byte.
From Abacus.Common Require Import Arr.
From Abacus.C14 Require Import Spec.
Import ListNotations.
Local Open Scope Z_scope.

(* block[:n] and block[n:] for n >= 0 (Python clips at the end) *)
Definition take {A} (n : Z) (l : list A) : list A := firstn (Z.to_nat n) l.
Definition drop {A} (n : Z) (l : list A) : list A := skipn (Z.to_nat n) l.

Record st := mkSt {
  s_size : Z;                      (* _size *)
  s_pos : Z;                       (* _pos *)
  s_buf : option (list byte);      (* _buffer: None, or the filled prefix _buffer[0:_pos] *)
  s_partial : list byte;           (* _partial_len *)
  s_out : list byte                (* out[0:bytesout];  bytesout = len s_out *)
}.

Definition s_init : st := mkSt 0 0 None [] [].

(* struct.unpack('!I', x): x must have exactly 4 bytes (struct.error otherwise) *)
Definition unpack_be32 (l : list byte) : res Z :=
  if len l =? 4 then Ok (be32_decode l) else Raise OtherError.

Definition is_some {A} (o : option A) : bool := match o with Some _ => true | None => false end.

Inductive hdr_result :=
| Break (s : st)                   (* `break`: the whole block went into _partial_len *)
| Cont (s : st) (block : list byte).

Section Decompress.
  Variable D : list byte -> res (list byte).
  Variable cap : Z.

  (* n_thisout = blosc.decompress_ptr(frame, out + bytesout); bytesout += n_thisout *)
  Definition decompress_ptr (frame : list byte) (s : st) : res st :=
    d <- D frame ;;
    if len (s_out s) + len d <=? cap
    then Ok (mkSt (s_size s) (s_pos s) (s_buf s) (s_partial s) (s_out s ++ d))
    else Oob.

  (*  if not _size: ...  *)
  Definition read_header (s : st) (block : list byte) : res hdr_result :=
    if s_size s =? 0 then
      if len (s_partial s) + len block <? 4 then
        (* _partial_len += block; break *)
        Ok (Break (mkSt (s_size s) (s_pos s) (s_buf s) (s_partial s ++ block) (s_out s)))
      else if negb (len (s_partial s) =? 0) then
        (* if _partial_len: *)
        let remaining := 4 - len (s_partial s) in
        let '(pl, blk) :=
          if negb (remaining =? 0)
          then (s_partial s ++ take remaining block, drop remaining block)
          else (s_partial s, block) in
        size <- unpack_be32 pl ;;
        Ok (Cont (mkSt size (s_pos s) (s_buf s) [] (s_out s)) blk)
      else
        size <- unpack_be32 (take 4 block) ;;
        Ok (Cont (mkSt size (s_pos s) (s_buf s) (s_partial s) (s_out s)) (drop 4 block))
    else Ok (Cont s block).

  (*  if len(block) < _size or _buffer is not None: ... else: ...  *)
  Definition read_body (s : st) (block : list byte) : res (st * list byte) :=
    if (len block <? s_size s) || is_some (s_buf s) then
      let '(buf, pos) := match s_buf s with
                         | None => ([], 0)          (* _buffer = np.empty(_size); _pos = 0 *)
                         | Some b => (b, s_pos s)
                         end in
      let newbytes := Z.min (s_size s - pos) (len block) in
      let buf' := buf ++ take newbytes block in
      let pos' := pos + newbytes in
      let blk := drop newbytes block in
      if pos' =? s_size s then
        s' <- decompress_ptr buf' (mkSt (s_size s) pos' (Some buf') (s_partial s) (s_out s)) ;;
        Ok (mkSt 0 (s_pos s') None (s_partial s') (s_out s'), blk)
      else Ok (mkSt (s_size s) pos' (Some buf') (s_partial s) (s_out s), blk)
    else
      s' <- decompress_ptr (take (s_size s) block) s ;;
      Ok (mkSt 0 (s_pos s') (s_buf s') (s_partial s') (s_out s'), drop (s_size s) block).

  (* one iteration of  while len(block):  ; returns the new state and what is left of the block *)
  Definition iter (s : st) (block : list byte) : res (st * list byte) :=
    h <- read_header s block ;;
    match h with
    | Break s' => Ok (s', [])
    | Cont s' blk => read_body s' blk
    end.

  Fixpoint feed_fuel (fuel : nat) (s : st) (block : list byte) : res st :=
    match fuel with
    | O => Raise OtherError                         (* out of fuel: excluded by fuel_sufficient *)
    | S f =>
        if len block =? 0 then Ok s                 (* while len(block): *)
        else '(s', blk) <- iter s block ;; feed_fuel f s' blk
    end.

  (* the body of  for block in blocks:  *)
  Definition feed (s : st) (block : list byte) : res st := feed_fuel (S (length block)) s block.

  Fixpoint feed_all (s : st) (chunks : list (list byte)) : res st :=
    match chunks with
    | [] => Ok s
    | c :: t => s' <- feed s c ;; feed_all s' t
    end.

  (* decompress(blocks, out): final state; the caller sees out[0:bytesout] = s_out and the returned bytesout *)
  Definition decompress (chunks : list (list byte)) : res st := feed_all s_init chunks.

  Definition returned (s : st) : Z := len (s_out s).

  (* abstraction to the specification automaton's state *)
  Definition abs (s : st) : ast :=
    mkA (if s_size s =? 0 then Hdr (s_partial s)
         else Body (s_size s) (match s_buf s with None => [] | Some b => b end))
        (s_out s).
End Decompress.

Section Compress.
  Variable C : list byte -> list byte.

  (* struct.pack('!I', n): struct.error unless 0 <= n < 2^32 *)
  Definition pack_be32 (n : Z) : res (list byte) :=
    if (0 <=? n) && (n <? 4294967296) then Ok (be32_encode n) else Raise OtherError.

  Fixpoint iota (n : nat) (k : Z) : list Z :=
    match n with O => [] | S n' => k :: iota n' (k + 1) end.

  Fixpoint map_res {A B} (f : A -> res B) (l : list A) : res (list B) :=
    match l with
    | [] => Ok []
    | a :: t => b <- f a ;; r <- map_res f t ;; Ok (b :: r)
    end.

  (* data: a contiguous 1-D buffer of items of [itemsz] bytes, given as its bytes; len(data) = |bytes| / itemsz.
     compression_block_size = blocksz.  Returns the list of yielded blocks. *)
  Definition compress (blocksz itemsz : Z) (data : list byte) : res (list (list byte)) :=
    let nelem := blocksz / itemsz in
    if nelem =? 0 then Raise ValueError              (* range() arg 3 must not be zero *)
    else
      let n := len data / itemsz in
      let count := (n + nelem - 1) / nelem in        (* len(range(0, n, nelem)) *)
      map_res (fun j =>
                 let i := j * nelem in
                 (* data[i : i + nelem] *)
                 let compressed := C (take (nelem * itemsz) (drop (i * itemsz) data)) in
                 header <- pack_be32 (len compressed) ;;
                 Ok (header ++ compressed))
              (iota (Z.to_nat count) 0).
End Compress.
