(* C14/TieGen.v — the state machine regenerated from BloscCompressor.decompress (Gen.v, written by tools/gen/c14.py on every
   run) IS the hand-written model of Model.v on every well-formed state, hence for every call: the theorems of Properties.v
   are statements about the regenerated text too. *)
From Coq Require Import ZArith List Bool Lia Strings.Byte ZifyBool.
From Abacus.Common Require Import Arr.
From Abacus.C14 Require Import Spec Model Lib Proofs RoundTrip Gen.
Import ListNotations.
Local Open Scope Z_scope.

Section Tie.
  Variable D : list byte -> res (list byte).
  Variable cap : Z.

  Ltac split_ifs :=
    repeat (cbn [bind s_size s_pos s_buf s_partial s_out is_some negb orb andb fst snd app] in *;
      try change (take 0 (@nil byte)) with (@nil byte);
      cbn [app];
      (* harmless variation of the source text: the arguments of min either way round *)
      repeat match goal with |- context [Z.min (len ?l) (?a - ?b)] => rewrite (Z.min_comm (len l) (a - b)) end;
      match goal with
      | |- context [if ?c then _ else _] =>
          lazymatch c with
          | context [if _ then _ else _] => fail
          | _ => let E := fresh "E" in destruct c eqn:E
          end
      | |- context [unpack_be32 ?l] => let U := fresh "U" in destruct (unpack_be32 l) eqn:U
      | |- context [D ?f] => let U := fresh "U" in destruct (D f) eqn:U
      end).

  Ltac close_store :=
    exfalso;
    match goal with
    | E : context [len (take ?m ?l)] |- _ =>
        pose proof (len_nonneg l);
        assert (len (take m l) = m) by (apply len_take; lia);
        unfold len in *; cbn [length] in *; lia
    end.

  Lemma gen_iter_eq s block : wf s -> gen_iter D cap s block = Model.iter D cap s block.
  Proof.
    intros Hw. destruct s as [size pos buf pl out].
    unfold wf in Hw. cbn [s_size s_pos s_buf s_partial s_out] in Hw.
    unfold gen_iter, Model.iter, read_header, read_body, Model.decompress_ptr, dptr, buf_store, buf_all.
    cbn [s_size s_pos s_buf s_partial s_out].
    change (take 0 (@nil byte)) with (@nil byte).
    destruct (size =? 0) eqn:Es.
    - destruct Hw as [Hb Hpl]. subst buf.
      split_ifs; try reflexivity; try close_store.
    - destruct Hw as (Hs & Hpl & Hb). subst pl.
      destruct buf as [b|].
      + destruct Hb as [Hp Hlt]. subst pos.
        cbn [negb is_some orb bind].
        rewrite (take_all (len b) b) by lia.
        split_ifs; try reflexivity; try close_store.
      + split_ifs; try reflexivity; try close_store.
  Qed.

  Lemma gen_feed_fuel_eq fuel : forall s block, wf s ->
    gen_feed_fuel D cap fuel s block = Model.feed_fuel D cap fuel s block.
  Proof.
    induction fuel as [|f IH]; intros s block Hw; cbn [gen_feed_fuel Model.feed_fuel]; [reflexivity|].
    destruct (len block =? 0) eqn:E0; [reflexivity|].
    rewrite (gen_iter_eq s block Hw).
    pose proof (len_nonneg block) as Hb.
    destruct (iter_refines D cap s block Hw ltac:(lia)) as (c & rest & _ & _ & _ & Hwf).
    destruct (Model.iter D cap s block) as [[s1 r1]| |e]; cbn [bind]; try reflexivity.
    apply IH. apply (Hwf s1 r1). reflexivity.
  Qed.

  Lemma gen_feed_eq s block : wf s -> gen_feed D cap s block = Model.feed D cap s block.
  Proof. intros Hw. unfold gen_feed, Model.feed. apply gen_feed_fuel_eq. exact Hw. Qed.

  Lemma gen_feed_all_eq chunks : forall s, wf s -> gen_feed_all D cap s chunks = Model.feed_all D cap s chunks.
  Proof.
    induction chunks as [|c t IH]; intros s Hw; cbn [gen_feed_all Model.feed_all]; [reflexivity|].
    rewrite (gen_feed_eq s c Hw).
    destruct (feed_refines_parse_lemma D cap s c Hw) as [_ Hwf].
    destruct (Model.feed D cap s c) as [s1| |e]; cbn [bind]; try reflexivity.
    apply IH. apply Hwf. reflexivity.
  Qed.

  (* the whole call: the regenerated reader is the modelled reader, for every codec, capacity and chunking *)
  Lemma gen_decompress_eq chunks : gen_decompress D cap chunks = Model.decompress D cap chunks.
  Proof. unfold gen_decompress, Model.decompress. apply gen_feed_all_eq. apply wf_init. Qed.

  Lemma gen_refines_parse chunks : obs (gen_decompress D cap chunks) = parse D cap (concat chunks).
  Proof. rewrite gen_decompress_eq. apply decompress_refines_parse_lemma. Qed.

  Lemma gen_chunking_independent cs cs' :
    concat cs = concat cs' ->
    obs (gen_decompress D cap cs) = obs (gen_decompress D cap cs') /\
    visible (gen_decompress D cap cs) = visible (gen_decompress D cap cs').
  Proof. intros H. rewrite !gen_decompress_eq. apply chunking_independent_both_lemma. exact H. Qed.
End Tie.

Lemma gen_roundtrip (C : list byte -> list byte) (D : list byte -> res (list byte)) (maxin : Z) :
  (forall x, len x <= maxin -> D (C x) = Ok x) ->
  (forall x, len x <= maxin -> len (C x) < 4294967296) ->
  forall blocksz itemsz data cap,
  0 < itemsz <= blocksz -> blocksz <= maxin -> len data mod itemsz = 0 -> len data <= cap ->
  exists blocks,
    compress C blocksz itemsz data = Ok blocks /\
    forall cs, concat cs = concat blocks ->
      exists s, gen_decompress D cap cs = Ok s /\ s_out s = data /\ returned s = len data /\
                s_size s = 0 /\ s_partial s = [].
Proof.
  intros HD HC blocksz itemsz data cap H1 H2 H3 H4.
  destruct (roundtrip_lemma C D maxin HD HC blocksz itemsz data cap H1 H2 H3 H4) as (blocks & Hc & Hall).
  exists blocks. split; [exact Hc|]. intros cs Hcs. rewrite gen_decompress_eq. apply Hall. exact Hcs.
Qed.
